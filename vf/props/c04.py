"""C04 - fast-packet reassembly is exact under interleaving, reordering, duplication and loss."""
from __future__ import annotations

import itertools

from .. import fastpacket as fp, wire
from ..common import Ctx, hyp_machine, pmap

LEVEL = "exploration"
LEVEL_TEXT = ("Model-based stateful testing: a Hypothesis rule-based machine drives up to 4 concurrent (PGN, source, destination) streams "
              "with interleaving, out-of-order delivery, duplicates, drops and padding, and a per-stream specification model decides after "
              "every frame what the decoder must return. A bounded family (2 streams x one 3-frame message each x all interleavings x "
              "permutations x dup/drop subsets) is enumerated completely. Histories are bounded (<= 80 steps), so this is exploration.")
TECHNIQUE = "stateful model-based testing (Hypothesis RuleBasedStateMachine) against a per-stream specification model + bounded exhaustive histories"
RULE = ("histories over 2..4 streams of PGN 126720/130816: start message (length 0..60, sometimes up to 223, fresh sequence counter, "
        "payload tagged per message, last-frame padding none/00/FF/random), deliver next / out of order / duplicate / drop / late frame of the "
        "stream's previous message (other sequence counter) / stray duplicate of a completed message's first frame / real time passing "
        "between frames (process clock advanced); plus wide histories (2 .. 2200 concurrently open or abandoned streams); oracle after every "
        "step: returned payload == payload of that stream's current message iff this frame completes it, else nothing; non-trivial = >= 2 "
        "streams overlapping inside a message or >= 1 reorder/dup/drop or non-zero padding; distinct = history hash")
ASSUMPTIONS = [
    "first frames are not lost; a first frame is duplicated only as a single stray copy after its (multi-frame) message has been returned "
    "and then nothing else of that message follows; duplicates do not outlive the next first frame of their stream; consecutive sequence "
    "counters on a stream are distinct (quantifier of the property)",
    "payload observed through the BINARY field of the proprietary fallback definitions; payload bytes carry a per-message tag",
    "frames are presented as 8-byte CAN frames when padded (DLC 8), through decode_tcp; thorough also decode_usb / decode_yacht_devices_string",
]

STREAMS = [(130816, 1, 255), (130816, 2, 255), (126720, 1, 5), (126720, 1, 6), (126720, 2, 5), (126720, 1, 255),
           # interferers: other fast PGNs of the same identifier neighbourhood from the same sources. Their own results are not
           # judged (their payloads match no definition), but they must not disturb the observed streams.
           (130820, 1, 255), (130817, 1, 255), (130850, 2, 255), (126208, 1, 5), (126464, 1, 5),
           # observed streams whose (source, destination) pairs read the same when written without a separator (hex 1|23 = 12|3, decimal
           # 1|23 = 12|3, 11|1 = 1|11) or differ only beyond the low bits
           (126720, 0x01, 0x23), (126720, 0x12, 0x03), (126720, 1, 23), (126720, 12, 3), (126720, 11, 1), (126720, 1, 11),
           (126720, 0x81, 5), (126720, 1, 0x85)]
OBSERVED = 6
AMBIGUOUS = list(range(11, 19))


def observed(s):
    return s < OBSERVED or s >= 11


class Interp:
    """Executes a history on the real decoder next to the specification model."""

    def __init__(self, fmt="ebyte"):
        from nmea2000.decoder import NMEA2000Decoder
        self.dec = NMEA2000Decoder()
        self.fmt = fmt
        self.cur = {}      # stream index -> dict(payload, seq, frames, got:set, done:bool)
        self.prev = {}     # stream index -> previous message of that stream (for stale frames)
        self.ops = []
        self.stats = {"reorder": 0, "dup": 0, "drop": 0, "pad": 0, "overlap": 0, "stale": 0, "dupfirst": 0, "warp": 0}

    def _send(self, stream, data: bytes):
        pgn, src, dest = STREAMS[stream]
        c = self.cur.get(stream)
        i = wire.ident(pgn, src, dest, c.get("prio", 3) if c else 3)
        # binary packets are handed over in a buffer the caller owns and overwrites as soon as the call has returned (recv_into style)
        if self.fmt == "ebyte":
            buf = bytearray(wire.ebyte(i, data))
            try:
                return self.dec.decode_tcp(memoryview(buf) if len(self.ops) % 2 else buf)
            finally:
                buf[:] = b"\xee" * len(buf)
        if self.fmt == "usb":
            buf = bytearray(wire.usb(i, data))
            try:
                return self.dec.decode_usb(memoryview(buf) if len(self.ops) % 2 else buf)
            finally:
                buf[:] = b"\xee" * len(buf)
        return self.dec.decode_yacht_devices_string(wire.yd(i, data))

    def step(self, op):
        """-> list of (bucket, what). Raises nothing for decoder errors: they are discrepancies."""
        self.ops.append(op)
        s = op["stream"]
        if op["op"] == "start":
            payload = bytes.fromhex(op["payload"])
            frames = wire.segment(payload, op["seq"])
            pad = bytes.fromhex(op.get("pad", ""))
            if pad:
                last = frames[-1]
                frames[-1] = last + pad[: 8 - len(last)]
                if any(pad[: 8 - len(last)]):
                    self.stats["pad"] += 1
            if any(c is not None and not c["done"] and t != s for t, c in self.cur.items()):
                self.stats["overlap"] += 1
            self.prev[s] = self.cur.get(s)
            self.cur[s] = {"payload": payload, "seq": op["seq"], "frames": frames, "got": set(), "done": False, "dropped": set(),
                           "prio": op.get("prio", 3)}
            return self._deliver(s, 0, op)
        if op["op"] == "stale":
            # a late (or duplicated) non-first frame of the previous message of this stream: it carries another sequence counter
            self.stats["stale"] += 1
            tag = "C04|" + self.fmt
            try:
                r = self._send(s, self.prev[s]["frames"][op["index"]])
            except Exception as e:
                return [(f"{tag}|decoder-error|{type(e).__name__}", f"step {len(self.ops) - 1} {op}: {type(e).__name__}: {e}")]
            if r is not None:
                return [(f"{tag}|stale-frame-delivered", f"step {len(self.ops) - 1} {op}: a frame of the previous message (other sequence counter) produced a message")]
            return []
        if op["op"] == "claim":
            # an ISO address claim (single frame, PGN 60928) from some address arrives between the frames; not judged itself
            from .. import traffic
            self.stats["claim"] = self.stats.get("claim", 0) + 1
            i = wire.ident(60928, op["src"], 255, 6)
            data = traffic.iso_name(op["name"], 137 + op["name"] % 3).to_bytes(8, "little")
            try:
                if self.fmt == "ebyte":
                    self.dec.decode_tcp(wire.ebyte(i, data))
                elif self.fmt == "usb":
                    self.dec.decode_usb(wire.usb(i, data))
                else:
                    self.dec.decode_yacht_devices_string(wire.yd(i, data))
            except Exception:
                pass
            return []
        if op["op"] == "wallstep":
            # the system time is stepped (NTP correction, end of daylight saving time); monotonic time is not
            from ..common import CLOCK
            CLOCK.step_wall(op["seconds"])
            self.stats["wallstep"] = self.stats.get("wallstep", 0) + 1
            return []
        if op["op"] == "warp":
            # real time passes between two inputs (the process clock is advanced); nothing is delivered
            from ..common import CLOCK
            CLOCK.warp(op["seconds"])
            self.stats["warp"] += 1
            return []
        if op["op"] == "dupfirst":
            # a stray duplicate of the first frame of a message that has already been returned (multi-frame messages only: a
            # duplicated single-frame fast packet IS a complete retransmission).  Nothing may be returned for it, and - because
            # the quantifier lets no other frame of that message follow - the stream stays silent until its next message.
            self.stats["dupfirst"] += 1
            c = self.cur[s]
            c["sealed"] = True
            tag = "C04|" + self.fmt
            try:
                r = self._send(s, c["frames"][0])
            except Exception as e:
                return [(f"{tag}|decoder-error|{type(e).__name__}", f"step {len(self.ops) - 1} {op}: {type(e).__name__}: {e}")]
            if r is not None and observed(s):
                return [(f"{tag}|redelivered-by-first-frame-duplicate", f"step {len(self.ops) - 1} {op}: a stray duplicate of a first frame produced a message "
                         f"({r.id}) that was never sent")]
            return []
        if op["op"] == "drop":
            self.cur[s]["dropped"].add(op["index"])
            self.stats["drop"] += 1
            return []
        # frame delivery: next / ooo / dup
        if op["how"] == "dup":
            self.stats["dup"] += 1
        elif op["how"] == "ooo":
            self.stats["reorder"] += 1
        return self._deliver(s, op["index"], op)

    def _deliver(self, s, k, op):
        c = self.cur[s]
        data = c["frames"][k]
        completes = (not c["done"]) and k not in c["got"] and (c["got"] | {k}) == set(range(len(c["frames"])))
        c["got"].add(k)
        tag = "C04|" + self.fmt
        if not observed(s):
            if completes:
                c["done"] = True
            try:
                self._send(s, data)
            except Exception:
                pass
            return []
        try:
            r = self._send(s, data)
        except Exception as e:
            return [(f"{tag}|decoder-error|{type(e).__name__}", f"step {len(self.ops) - 1} {op}: {type(e).__name__}: {e}")]
        out = []
        if completes:
            c["done"] = True
            if r is None:
                out.append((f"{tag}|not-delivered", f"step {len(self.ops) - 1} {op}: last missing frame arrived but nothing was returned"))
        if r is not None:
            pgn, src, dest = STREAMS[s]
            if not completes:
                kind = "redelivered" if c["done"] else "early"
                out.append((f"{tag}|{kind}", f"step {len(self.ops) - 1} {op}: a message was returned although the frame does not complete one"))
            if (r.PGN, r.source, r.destination) != (pgn, src, dest):
                out.append((f"{tag}|addressing", f"returned message addressing {(r.PGN, r.source, r.destination)} != {(pgn, src, dest)}"))
            if r.priority != c.get("prio", 3):
                out.append((f"{tag}|priority", f"step {len(self.ops) - 1}: returned message has priority {r.priority}, its frames carried {c.get('prio', 3)}"))
            if r.id != fp.fallback_id(pgn):
                out.append((f"{tag}|definition", f"decoded as {r.id}"))
            else:
                back = fp.recon(r)
                exp = int.from_bytes(c["payload"], "little")
                if back != exp:
                    n = len(c["payload"])
                    if back & ((1 << (8 * n)) - 1) == exp:
                        out.append((f"{tag}|padding-leak", f"step {len(self.ops) - 1}: returned payload {back:#x} carries bytes beyond the announced length {n} (sent {c['payload'].hex()})"))
                    else:
                        out.append((f"{tag}|payload-mixed", f"step {len(self.ops) - 1}: returned payload {back:#x} was never sent on this stream (current message {c['payload'].hex()})"))
        return out

    def nontrivial(self):
        st_ = self.stats
        return st_["overlap"] > 0 or st_["reorder"] or st_["dup"] or st_["drop"] or st_["pad"] or st_["stale"] or st_["dupfirst"] or st_["warp"] or st_.get("claim") or st_.get("wallstep")


def run_history(ops, fmt="ebyte"):
    it = Interp(fmt)
    out = []
    for op in ops:
        for b, w in it.step(op):
            out.append((b, w, {"ops": list(it.ops), "format": fmt}))
        if out:
            break
    return out, it


def make_machine_factory(ctx: Ctx, fmt: str):
    from hypothesis import strategies as st
    from hypothesis.stateful import RuleBasedStateMachine, initialize, precondition, rule

    def make(flag):
        class FastPacketMachine(RuleBasedStateMachine):
            def __init__(self):
                super().__init__()
                self.it = Interp(fmt)
                self.n_streams = 2
                self.msg_no = 0
                self.last_seq = {}
                self.counted = False

            @initialize(n=st.integers(2, 4), interferers=st.booleans(), amb=st.integers(0, 7))
            def setup(self, n, interferers, amb):
                self.n_streams = n
                # one run in four observes a pair of streams whose keys are easy to confuse instead of the first n
                self.obs = list(range(n))
                if amb < 4:
                    self.obs = AMBIGUOUS[2 * amb:2 * amb + 2]
                # stream indices in use: the first n observed ones, optionally all interferers
                self.extra = list(range(OBSERVED, 11)) if interferers else []

            def _streams(self):
                return list(getattr(self, "obs", range(self.n_streams))) + list(getattr(self, "extra", []))

            def _do(self, op):
                res = self.it.step(op)
                flag([(b, w, {"ops": list(self.it.ops), "format": fmt}) for b, w in res])

            def _open(self, s):
                c = self.it.cur.get(s)
                return c is not None

            @rule(data=st.data(), s=st.integers(0, 3), big=st.integers(0, 19),
                  padkind=st.sampled_from(["none", "none", "00", "ff", "rand"]))
            def start(self, data, s, big, padkind):
                obs = getattr(self, "obs", list(range(self.n_streams)))
                s = obs[s % len(obs)]
                if self.extra and big % 3 == 1:
                    s = self.extra[(s + big) % len(self.extra)]
                pgn = STREAMS[s][0]
                self.msg_no += 1
                if big == 0:
                    L = data.draw(st.integers(61, 223), label="length")
                else:
                    L = data.draw(st.one_of(st.integers(0, 60), st.sampled_from([0, 5, 6, 7, 8, 12, 13, 14, 15, 20, 21])), label="length")
                if not observed(s):
                    payload = bytes([0xE5, 0x98]) + bytes([self.msg_no & 0xFF]) * max(L - 2, 0) if L >= 2 else bytes(L)
                else:
                    payload = data.draw(fp.payload(pgn, L, L, tag=self.msg_no), label="payload")
                prev = self.last_seq.get(s)
                seq = data.draw(st.integers(0, 7).filter(lambda x: x != prev), label="seq")
                self.last_seq[s] = seq
                pad = {"none": b"", "00": bytes(7), "ff": b"\xff" * 7}.get(padkind)
                if pad is None:
                    pad = data.draw(st.binary(min_size=7, max_size=7), label="pad")
                prio = data.draw(st.sampled_from([3, 3, 3, 2, 6, 0, 7]), label="priority")
                self._do({"op": "start", "stream": s, "payload": payload.hex(), "seq": seq, "pad": pad.hex(), "prio": prio})

            def _pending(self, s):
                c = self.it.cur.get(s)
                if c is None:
                    return []
                return [k for k in range(1, len(c["frames"])) if k not in c["got"] and k not in c["dropped"]]

            @precondition(lambda self: any(self._pending(s) for s in self._streams()))
            @rule(data=st.data())
            def deliver_next(self, data):
                cands = [s for s in self._streams() if self._pending(s)]
                s = data.draw(st.sampled_from(cands), label="stream")
                self._do({"op": "frame", "stream": s, "index": self._pending(s)[0], "how": "next"})

            @precondition(lambda self: any(len(self._pending(s)) > 1 for s in self._streams()))
            @rule(data=st.data())
            def deliver_out_of_order(self, data):
                cands = [s for s in self._streams() if len(self._pending(s)) > 1]
                s = data.draw(st.sampled_from(cands), label="stream")
                k = data.draw(st.sampled_from(self._pending(s)[1:]), label="index")
                self._do({"op": "frame", "stream": s, "index": k, "how": "ooo"})

            def _dupable(self, s):
                c = self.it.cur.get(s)
                if c is None or c.get("sealed"):
                    return []
                return [k for k in c["got"] if k != 0]

            @precondition(lambda self: any(self._dupable(s) for s in self._streams()))
            @rule(data=st.data())
            def duplicate(self, data):
                cands = [s for s in self._streams() if self._dupable(s)]
                s = data.draw(st.sampled_from(cands), label="stream")
                k = data.draw(st.sampled_from(sorted(self._dupable(s))), label="index")
                self._do({"op": "frame", "stream": s, "index": k, "how": "dup"})

            @precondition(lambda self: any(self._pending(s) for s in self._streams()))
            @rule(data=st.data())
            def drop(self, data):
                cands = [s for s in self._streams() if self._pending(s)]
                s = data.draw(st.sampled_from(cands), label="stream")
                k = data.draw(st.sampled_from(self._pending(s)), label="index")
                self._do({"op": "drop", "stream": s, "index": k})

            def _dupfirst_ok(self, s):
                c = self.it.cur.get(s)
                return c is not None and c["done"] and len(c["frames"]) >= 2 and not c.get("sealed")

            @precondition(lambda self: any(self._dupfirst_ok(s) for s in self._streams()))
            @rule(data=st.data())
            def duplicate_first_frame_after_completion(self, data):
                cands = [s for s in self._streams() if self._dupfirst_ok(s)]
                s = data.draw(st.sampled_from(cands), label="stream")
                self._do({"op": "dupfirst", "stream": s})

            @precondition(lambda self: any(self._pending(s) for s in self._streams()))
            @rule(which=st.integers(0, 40), name=st.integers(1, 3))
            def address_claim(self, which, name):
                # from a sender of a stream in use, a destination, or an address whose digits are part of another one
                pool = sorted({STREAMS[s][1] for s in self._streams()} | {STREAMS[s][2] for s in self._streams()} | {1, 2, 5, 12, 13, 23, 25, 55}) 
                self._do({"op": "claim", "stream": 0, "src": min(pool[which % len(pool)], 253), "name": name})

            @precondition(lambda self: any(self._pending(s) for s in self._streams()))
            @rule(seconds=st.sampled_from([-0.8, -5.0, -3600.0, 3600.0, -86400.0]))
            def system_time_stepped(self, seconds):
                self._do({"op": "wallstep", "stream": 0, "seconds": seconds})

            @precondition(lambda self: any(self._pending(s) for s in self._streams()))
            @rule(seconds=st.sampled_from([0.2, 1.0, 5.0, 120.0]))
            def time_passes(self, seconds):
                self._do({"op": "warp", "stream": 0, "seconds": seconds})

            def _stale_ok(self, s):
                p, c = self.it.prev.get(s), self.it.cur.get(s)
                return p is not None and c is not None and len(p["frames"]) > 1 and not c.get("sealed")

            @precondition(lambda self: any(self._stale_ok(s) for s in self._streams()))
            @rule(data=st.data())
            def stale_frame(self, data):
                cands = [s for s in self._streams() if self._stale_ok(s)]
                s = data.draw(st.sampled_from(cands), label="stream")
                k = data.draw(st.integers(1, len(self.it.prev[s]["frames"]) - 1), label="index")
                self._do({"op": "stale", "stream": s, "index": k})

            def teardown(self):
                ctx.count()
                ops = self.it.ops
                if ops:
                    if self.it.nontrivial():
                        ctx.nt(repr(ops))
                    for k, v in self.it.stats.items():
                        if v:
                            ctx.klass("history_with_" + k)
                    ctx.klass("steps", len(ops))
                    if len(ops) >= 6:
                        ctx.sample({"format": fmt, "ops": ops[:12], "steps": len(ops)})

        return FastPacketMachine
    return make


def _machine_shard(ctx: Ctx, item):
    fmt, n, steps = item
    hyp_machine(ctx, make_machine_factory(ctx, fmt), max_examples=n, step_count=steps, name="machine-" + fmt)


# ---- bounded exhaustive family -------------------------------------------------------------------
def stream_sequences(max_dup=1):
    """All delivery sequences of one 3-frame message after its first frame: each of frames 1,2 dropped / once / twice, any order."""
    seqs = set()
    for c1 in range(0, max_dup + 2):
        for c2 in range(0, max_dup + 2):
            items = [1] * c1 + [2] * c2
            for perm in set(itertools.permutations(items)):
                seqs.add(perm)
    return sorted(seqs)


def interleavings(a, b):
    if not a:
        yield tuple(b)
        return
    if not b:
        yield tuple(a)
        return
    for rest in interleavings(a[1:], b):
        yield (a[0],) + rest
    for rest in interleavings(a, b[1:]):
        yield (b[0],) + rest


def _exhaustive_shard(ctx: Ctx, item):
    pairs, fmt, pads = item
    pA = fp.header(130816, 3) + bytes([0xA1] * 13)    # 15 bytes: frames of 6, 7, 2
    pB_same_pgn = fp.header(130816, 4) + bytes([0xB2] * 13)
    pB_other = fp.header(126720, 5) + bytes([0xB2] * 13)
    n_hist = 0
    for sa, sb, sB in pairs:
        pB = pB_same_pgn if sB == 1 else pB_other
        A = [("A", 0)] + [("A", k) for k in sa]
        B = [("B", 0)] + [("B", k) for k in sb]
        for pad in pads:
            for order in interleavings(A, B):
                ops = []
                seen = {"A": set(), "B": set()}
                for who, k in order:
                    s = 0 if who == "A" else sB
                    if k == 0:
                        ops.append({"op": "start", "stream": s, "payload": (pA if who == "A" else pB).hex(), "seq": 2 if who == "A" else 5, "pad": pad})
                    else:
                        how = "dup" if k in seen[who] else "next"
                        ops.append({"op": "frame", "stream": s, "index": k, "how": how})
                    seen[who].add(k)
                res, it = run_history(ops, fmt)
                ctx.count()
                n_hist += 1
                ctx.nontrivial_extra += 1
                for b, w, c in res:
                    ctx.report(b, w, c)
    ctx.klass("exhaustive_histories", n_hist)


def _loss_shard(ctx: Ctx, item):
    """1 stream x 2 consecutive messages with every loss/dup pattern in the first (loss followed by a different message)."""
    fmt, pads = item
    p1 = fp.header(130816, 7) + bytes([0xC3] * 18)   # 20 bytes: 3 frames (6,7,7)
    p2 = fp.header(130816, 8) + bytes([0xD4] * 18)
    for s1 in stream_sequences(1):
        for s2 in stream_sequences(1):
            for pad in pads:
                # a late frame of message 1 (index 1 or 2) arriving at every position inside message 2, or not at all
                base2 = []
                seen = set()
                for k in s2:
                    base2.append({"op": "frame", "stream": 0, "index": k, "how": "dup" if k in seen else "next"})
                    seen.add(k)
                variants = [base2]
                for stale in (1, 2):
                    for posn in range(len(base2) + 1):
                        variants.append(base2[:posn] + [{"op": "stale", "stream": 0, "index": stale}] + base2[posn:])
                complete1 = set(s1) == {1, 2}
                for v in variants + ([("dupfirst", variants[0])] if complete1 else []):
                    dupfirst = isinstance(v, tuple)
                    if dupfirst:
                        v = v[1]
                    ops = [{"op": "start", "stream": 0, "payload": p1.hex(), "seq": 1, "pad": pad}]
                    seen = set()
                    for k in s1:
                        ops.append({"op": "frame", "stream": 0, "index": k, "how": "dup" if k in seen else "next"})
                        seen.add(k)
                    if dupfirst:
                        ops.append({"op": "dupfirst", "stream": 0})
                    ops.append({"op": "start", "stream": 0, "payload": p2.hex(), "seq": 4, "pad": pad})
                    ops += v
                    res, it = run_history(ops, fmt)
                    ctx.count()
                    ctx.nontrivial_extra += 1
                    for b, w, c in res:
                        ctx.report(b, w, c)


def _wide_shard(ctx: Ctx, item):
    """Many concurrent streams / many abandoned partial messages on one decoder (the reassembly table must not lose anything)."""
    from nmea2000.decoder import NMEA2000Decoder
    mode, n, fmt = item
    keys = [(126720, src, dest) for dest in (255, 1, 2, 3, 4, 5, 6, 7, 8) for src in range(0, 252)][:n + 1]
    dec = NMEA2000Decoder()

    def send(key, data):
        i = wire.ident(key[0], key[1], key[2], 3)
        if fmt == "ebyte":
            return dec.decode_tcp(wire.ebyte(i, data))
        if fmt == "usb":
            return dec.decode_usb(wire.usb(i, data))
        return dec.decode_yacht_devices_string(wire.yd(i, data))

    def payload_of(j):
        return fp.header(126720, j) + bytes([(j * 7 + k) & 0xFF or 1 for k in range(11)])     # 13 bytes: frames of 6 and 7
    out = []
    case = {"wide": mode, "streams": n, "format": fmt}
    ctx.count()
    ctx.nontrivial_extra += 1
    try:
        if mode == "concurrent":
            # n messages open at the same time: all first frames, then all second frames
            for j in range(n):
                r = send(keys[j], wire.segment(payload_of(j), j % 8)[0])
                if r is not None:
                    out.append((f"C04|{fmt}|early", f"wide: first frame of stream {j} returned a message", case))
            lost = 0
            for j in range(n):
                r = send(keys[j], wire.segment(payload_of(j), j % 8)[1])
                if r is None:
                    lost += 1
                elif fp.recon(r) != int.from_bytes(payload_of(j), "little"):
                    out.append((f"C04|{fmt}|payload-mixed", f"wide: stream {j} of {n} returned a payload that was not sent on it", case))
            if lost:
                out.append((f"C04|{fmt}|not-delivered", f"wide: {lost} of {n} concurrently open messages were never returned although all their frames arrived", case))
        else:
            # n abandoned messages (first frame only) on n streams, then a complete message on another stream
            for j in range(n):
                send(keys[j], wire.segment(payload_of(j), j % 8)[0])
            fr = wire.segment(payload_of(n), 3)
            r0 = send(keys[n], fr[0])
            r1 = send(keys[n], fr[1])
            if r0 is not None:
                out.append((f"C04|{fmt}|early", "wide: first frame returned a message", case))
            if r1 is None:
                out.append((f"C04|{fmt}|not-delivered", f"wide: after {n} abandoned partial messages on other streams a complete message was not returned", case))
            elif fp.recon(r1) != int.from_bytes(payload_of(n), "little"):
                out.append((f"C04|{fmt}|payload-mixed", f"wide: after {n} abandoned partial messages a message with a wrong payload was returned", case))
    except Exception as e:
        out.append((f"C04|{fmt}|decoder-error|{type(e).__name__}", f"wide {mode} {n}: {type(e).__name__}: {e}", case))
    ctx.klass(f"wide_{mode}", 1)
    for b, w, c in out:
        ctx.report(b, w, c)


def _all_fast(ctx: Ctx, keys):
    """Every fast-packet definition of the database: two senders' messages interleaved frame by frame (and once with the frames of each
    message in reverse order) come back complete - exactly what the pre-assembled payload decodes to - and only at the last frame."""
    from nmea2000.decoder import NMEA2000Decoder
    from .. import canboat, gen
    db = canboat.db()

    def fields(m):
        return None if m is None else (m.id, m.PGN, m.source, m.destination, tuple((f.id, repr(f.value), repr(f.raw_value)) for f in m.fields))
    for key in keys:
        d = db.by_key[key]
        bp, bn, _ = gen.benign_payload(d)
        if bn > 223 or db.select(d.pgn, bp) is not d:
            continue
        payload = bp.to_bytes(bn, "little")
        dest = 255 if ((d.pgn >> 8) & 0xFF) >= 240 else 9
        for order in ("forward", "reverse"):
            dec = NMEA2000Decoder()
            want = {}
            for src in (3, 4):
                try:
                    want[src] = fields(NMEA2000Decoder().decode_basic_string(gen.basic_string(d.pgn, bp, bn, src=src, dest=dest), already_combined=True))
                except Exception:
                    want[src] = None
            fr = {3: wire.segment(payload, 2), 4: wire.segment(payload, 5)}
            idx = list(range(len(fr[3])))
            if order == "reverse":
                idx = [0] + idx[:0:-1]
            got, early = {}, []
            for pos, i in enumerate(idx):
                for src in (3, 4):
                    try:
                        r = wire.owned(dec.decode_tcp, wire.ebyte(wire.ident(d.pgn, src, dest, 3), fr[src][i]))
                    except Exception as e:
                        r = None
                        got[src] = ("error", type(e).__name__)
                    if r is not None:
                        if pos < len(idx) - 1:
                            early.append((src, pos))
                        got[src] = fields(r)
            ctx.count()
            ctx.nontrivial_extra += 1
            case = {"all_fast": key, "order": order}
            if early:
                ctx.report("C04|ebyte|all-fast|early", f"{key}: a message was returned at frame position {early[0][1]} of {len(idx)}", case)
            for src in (3, 4):
                if got.get(src) != want[src]:
                    ctx.report("C04|ebyte|all-fast|differs", f"{key} ({order} frame order, two interleaved senders): sender {src} got "
                               f"{str(got.get(src))[:120]}, the pre-assembled payload decodes to {str(want[src])[:120]}", case)
    ctx.klass("all_fast_definitions", len(keys))


def _long_payloads(ctx: Ctx, item):
    """The longest payloads (200..223 bytes) of both proprietary fast-packet PGNs, frame by frame: the returned message carries every byte."""
    pgn, fmt = item
    for L in range(200, 224):
        it = Interp(fmt)
        payload = fp.header(pgn, L) + bytes([(L + 7 * j) % 251 or 1 for j in range(L - 2)])
        src = 0 if pgn == 130816 else 2
        ops = [{"op": "start", "stream": src, "payload": payload.hex(), "seq": L % 8, "pad": ""}]
        n_frames = len(wire.segment(payload, 0))
        ops += [{"op": "frame", "stream": src, "index": k, "how": "next"} for k in range(1, n_frames)]
        ctx.count()
        ctx.nontrivial_extra += 1
        for op in ops:
            for b, w in it.step(op):
                ctx.report(b + "|long-payload", w + f" ({L}-byte payload)", {"ops": list(it.ops), "format": fmt})
    ctx.klass("long_payload_sweep")


def _clients(ctx: Ctx, item):
    """Two interleaved fast-packet messages (and a third behind them) arriving through the gateway client of the format, the byte stream
    cut at every byte / inside every packet / between the two marker bytes: the client delivers each message once, complete."""
    from .. import aio
    fmt, = item
    render = {"ebyte": wire.ebyte, "usb": wire.usb, "yd": lambda i, d: (wire.yd(i, d) + "\r\n").encode()}[fmt]
    msgs = []
    for k, (src, dest, L, seq) in enumerate(((1, 5, 15, 2), (2, 5, 8, 3), (1, 5, 27, 4))):
        payload = fp.header(126720, 5 + k) + bytes([0x10 * (k + 1) + j for j in range(L - 2)])
        msgs.append((wire.ident(126720, src, dest, 3), wire.segment(payload, seq), payload))
    order = []
    fa, fb, fc = msgs[0][1], msgs[1][1], msgs[2][1]
    for i in range(max(len(fa), len(fb))):
        if i < len(fa):
            order.append(render(msgs[0][0], fa[i]))
        if i < len(fb):
            order.append(render(msgs[1][0], fb[i]))
    order += [render(msgs[2][0], fr) for fr in fc]
    if fmt == "usb":
        # a few stray (marker-free) bytes on the serial line in front of the burst and inside it: they swallow nothing
        order = [b"\x11\x22\x33"] + order[:3] + [b"\x01\x02\x03\x04\x05\x06\x07"] + order[3:]
    stream = b"".join(order)
    bounds, pos = [], 0
    for p in order[:-1]:
        pos += len(p)
        bounds.append(pos)
    for name, cuts in (("whole", []), ("every-byte", list(range(1, len(stream)))), ("packet-boundaries", bounds), ("after-first-byte-of-each-packet", [b + 1 for b in [0] + bounds]),
                       ("mid-packet", [b + 7 for b in [0] + bounds]), ("every-3", list(range(3, len(stream), 3)))):
        got = aio.client_frames(fmt, stream, cuts=cuts)
        exp = aio.reference_delivery(fmt, [p for p in order if fmt != "usb" or p[:2] == b"\xaa\x55"])
        ctx.count()
        ctx.nontrivial_extra += 1
        if got != exp or len(exp) != 3:
            ctx.report(f"C04|{fmt}|client|{name}", f"{fmt} client, stream cut '{name}': delivered {len(got)} messages, a decoder fed the packets one by one returns {len(exp)} (3 were sent)",
                       {"client_cuts": name, "format": fmt})
    ctx.klass("client_segmentations")


def run(ctx: Ctx):
    from .. import canboat as _cb
    fast_keys = [d.key for d in _cb.db().defs if d.supported and d.fast]
    pmap(ctx, _all_fast, [fast_keys[i::16] for i in range(16)])
    from .. import longrun
    pmap(ctx, longrun.ticks, [(x, "C04") for x in longrun.limits(ctx)])
    fmts = ["ebyte"] if ctx.quick else ["ebyte", "usb", "yd"]
    n = 40 if ctx.quick else 400
    steps = 40 if ctx.quick else 80
    # the generated histories go through all three frame-level entry points in both tiers
    pmap(ctx, _machine_shard, [(("ebyte", "usb", "yd")[i % 3], n, steps) for i in range(16)])
    pmap(ctx, _clients, [(k,) for k in ("ebyte", "usb", "yd")])
    pmap(ctx, _long_payloads, [(pgn, f) for pgn in (130816, 126720) for f in ("ebyte", "usb", "yd")])
    # bounded exhaustive family
    seqs = stream_sequences(1)
    if ctx.quick:
        seqs_b = [s for s in seqs if len(s) <= 2]
        pads = ["", "ff" * 7]
    else:
        seqs_b = seqs
        pads = ["", "00" * 7, "ff" * 7, "5aa5c33c0f1e2d"]
    pairs = [(a, b, sB) for a in seqs for b in seqs_b for sB in (1, 2)]
    shards = [pairs[i::16] for i in range(16)]
    for fmt in fmts:
        pmap(ctx, _exhaustive_shard, [(s, fmt, pads) for s in shards if s])
        pmap(ctx, _loss_shard, [(fmt, pads)], procs=1)
    sizes = [2, 17, 64, 255, 256, 257, 300, 1023, 1024, 1025, 2200]
    pmap(ctx, _wide_shard, [(m, n, fmts[i % len(fmts)]) for i, n in enumerate(sizes) for m in ("concurrent", "abandoned")])
    ctx.notes["wide_histories"] = f"{sizes} concurrently open / abandoned streams on one decoder"
    ctx.exhaustive = False
    ctx.notes["bounded_exhaustive_family"] = (f"2 streams x one 3-frame message each x all interleavings x all orders x each non-first frame "
                                              f"dropped/once/twice ({len(pairs)} sequence pairs x {len(pads)} paddings x {len(fmts)} formats); "
                                              "1 stream x 2 consecutive messages with loss/dup in either")


def replay(ctx: Ctx, case):
    if "client_cuts" in case:
        sub = Ctx(ctx.pid)
        sub.known_open = {}
        _clients(sub, (case["format"],))
        return [(b, v["what"], v["case"]) for b, v in sub.found.items() if v["case"]["client_cuts"] == case["client_cuts"]]
    if "all_fast" in case:
        sub = Ctx(ctx.pid)
        sub.known_open = {}
        _all_fast(sub, [case["all_fast"]])
        return [(b, v["what"], v["case"]) for b, v in sub.found.items() if v["case"].get("order") == case.get("order")]
    if "ticks" in case:
        from .. import longrun
        return longrun.replay(case, "C04")
    if "wide" in case:
        sub = Ctx(ctx.pid)
        sub.known_open = {}
        _wide_shard(sub, (case["wide"], case["streams"], case["format"]))
        return [(b, v["what"], v["case"]) for b, v in sub.found.items()]
    res, _ = run_history(case["ops"], case.get("format", "ebyte"))
    return res
