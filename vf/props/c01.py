"""C01 - decoded fields match the canboat definition for every PGN and payload."""
from __future__ import annotations

import sys
from datetime import timedelta

from .. import canboat, collide, gen
from ..common import Ctx, chunks, pmap

LEVEL = "exploration"
LEVEL_TEXT = ("Differential testing of all 418 generated decoders against an independent reference model of canboat.json: every "
              "(field, boundary class) pair is executed once and thousands of random class combinations per definition on top. Exploration, "
              "not proof: a defect confined to an unvisited raw value of a wide field can escape; the class sweep is what makes a one-site "
              "edit of the 59k generated lines visible in the quick tier.")
TECHNIQUE = "property-based differential testing (Hypothesis) against a database reference model + systematic boundary-class sweep"
RULE = ("all 418 definitions: systematic sweep of every (field, raw-class) pair with the other fields benign, plus per-definition "
        "Hypothesis draws combining classes over all fields (any-class and accepted-only modes), numeric literals harvested from the library sources as raws/values, every one-bit neighbour of every match value, pairs of different payloads colliding under CRC-32 / byte sum / XOR / CPython integer hash back to back on one decoder, decoded through "
        "decode_basic_string(already_combined=True) and, for single-frame definitions of <= 8 bytes, decode_tcp; compared field by "
        "field with the database reference model. non-trivial = some field in a boundary class (range ends, just in/out, sentinel, "
        "sign boundary, table miss, special floats, non-ASCII/empty/max strings); distinct = (definition, payload)")
ASSUMPTIONS = [
    "reference model vf/canboat.py reads canboat.json per its embedded documentation: little-endian bit extraction, two's complement, "
    "highest positive code = not available for fields of >= 2 bits, value = raw*Resolution (+Offset, excess-K on the unsigned raw)",
    "fields whose database range contains the all-ones code (e.g. 2-bit AIS sequence numbers) may be reported as a value or as absent",
    "float comparison tolerance rel 1e-12; string expectations only for clean strings; BINARY compared as an integer",
    "repeating field sets are checked for their first repetition (what the generated decoders emit)",
    "jinja2 is absent: nmea2000/pgns.py of the working tree is tested against canboat.json of the working tree",
]


def culprit_field(d, tb):
    """Field being decoded when the library raised: read running_bit_offset from the generated function's frame."""
    pos = None
    name = None
    while tb is not None:
        fr = tb.tb_frame
        if fr.f_code.co_filename.endswith("pgns.py") and "running_bit_offset" in fr.f_locals:
            pos = fr.f_locals["running_bit_offset"]
        name = fr.f_code.co_name
        tb = tb.tb_next
    fid = "?"
    if pos is not None:
        for f in d.fields:
            if f.offset_bits == pos:
                fid = f.id or f.raw_id
                break
        else:
            fid = f"@{pos}"
    return fid, name


def short_err(e: BaseException):
    s = f"{type(e).__name__}:{e}"
    return s[:60]


class Checker:
    def __init__(self, ctx: Ctx):
        from nmea2000.decoder import NMEA2000Decoder
        self.ctx = ctx
        self.db = canboat.db()
        self.dec = NMEA2000Decoder()
        self.consts = canboat.lib_consts()
        # another decoder of the process, built the same way, is reconfigured in place by its owner (units switched at runtime)
        from nmea2000.consts import PhysicalQuantities as _PQ
        self.other = NMEA2000Decoder()
        if isinstance(getattr(self.other, "preferred_units", None), dict):
            self.other.preferred_units.update({_PQ.TEMPERATURE: "c", _PQ.ANGLE: "deg", _PQ.SPEED: "kts", _PQ.PRESSURE: "bar"})
        # the decoder is not fresh: it has received a message of every fast-packet definition frame by frame (from the source the
        # checked payloads come from) and one through the Actisense entry point before the first payload is checked
        from .. import wire
        for d in self.db.defs:
            if not (d.supported and d.fast):
                continue
            bp, bn, _ = gen.benign_payload(d)
            if bn > 223:
                continue
            try:
                for fr in wire.segment(bp.to_bytes(bn, "little"), d.index % 8):
                    self.dec.decode_tcp(wire.ebyte(wire.ident(d.pgn, 1, 255, 3), fr))
                self.dec.decode_actisense_string(wire.actisense(d.pgn, 1, 255, 3, bp.to_bytes(bn, "little")))
            except Exception:
                pass

    def decode(self, d, payload, nbytes, via):
        if via == "basic":
            return self.dec.decode_basic_string(gen.basic_string(d.pgn, payload, nbytes), already_combined=True)
        data = payload.to_bytes(nbytes, "little")
        dest_ps = 255
        pf = (d.pgn >> 8) & 0xFF
        ident = (3 << 26) | ((d.pgn >> 16) << 24) | (pf << 16) | ((dest_ps if pf < 240 else d.pgn & 0xFF) << 8) | 1
        pkt = bytes([0x80 | nbytes]) + ident.to_bytes(4, "big") + data + bytes(8 - nbytes)
        return self.dec.decode_tcp(pkt)

    def check(self, d, payload, nbytes, classes=(), via="basic", prelude=None, replaying=False):
        """-> list of (bucket, what, case).  prelude: a payload the same decoder was given just before (digest twins)."""
        ctx = self.ctx
        out = []
        case = {"definition": d.key, "payload_hex": payload.to_bytes(nbytes, "little").hex(), "via": via, "classes": list(classes)}
        if prelude is not None:
            case["prelude_hex"] = prelude.to_bytes(nbytes, "little").hex()
            if replaying:
                try:
                    self.decode(d, prelude, nbytes, via)
                except Exception:
                    pass
        target = self.db.select(d.pgn, payload)
        if target is None:
            ctx.klass("no_definition_selected")
            return out
        if target is not d:
            ctx.klass("sibling_selected")
        exps, all_in, wf = canboat.ref_decode(target, payload, nbytes)
        try:
            from ..common import HangDetected, hang_guard
            with hang_guard(20.0):
                msg = self.decode(d, payload, nbytes, via)
        except HangDetected:
            out.append((f"C01|totality|{target.key}|never-returns", "the decoder did not return within 20 s of real time", case))
            return out
        except Exception as e:
            if not target.supported and "not supported" in str(e):
                ctx.klass("unsupported_definition_raises")
                return out
            fid, fn = culprit_field(target, e.__traceback__)
            if all_in and wf:
                ctx.klass("error_in_range")
                out.append((f"C01|totality|{target.key}/{fid}|{short_err(e)}",
                            f"every field in range but decoding failed in {fn}: {type(e).__name__}: {e}", case))
            else:
                ctx.klass("rejected_out_of_range")
            return out
        if msg is None:
            out.append((f"C01|totality|{target.key}|returned-none", "decoder returned nothing for a known definition", case))
            return out
        ctx.klass("decoded")
        if not target.supported:
            out.append((f"C01|unsupported|{target.key}", "definition with an unsupported field type returned a message", case))
        ttl = timedelta(milliseconds=target.interval) if target.interval is not None else None
        for attr, got, exp in (("PGN", msg.PGN, target.pgn), ("id", msg.id, target.id),
                               ("description", msg.description, target.description), ("ttl", msg.ttl, ttl)):
            if got != exp:
                out.append((f"C01|message-{attr}|{target.key}", f"message {attr} {got!r} != {exp!r}", case))
        if len(msg.fields) != len(exps):
            out.append((f"C01|field-count|{target.key}", f"{len(msg.fields)} fields returned, database has {len(exps)}", case))
        for e, got in zip(exps, msg.fields):
            for aspect, text in canboat.compare_field(e, got, self.consts):
                out.append((f"C01|{aspect}|{target.key}/{e.field.id}", f"{e.field.id}: {text}", case))
        # the caller owns the message it was handed and edits it (drops fields, rewrites values); later decodes must not notice
        for fld in msg.fields:
            fld.value, fld.raw_value = "edited by the caller", -1
        del msg.fields[1:]
        msg.hash = "edited"
        return out


def _work(ctx: Ctx, item):
    from hypothesis import strategies as st
    keys, n_any, n_acc, n_twin = item
    ck = Checker(ctx)
    db = canboat.db()
    visited_pairs = 0
    for key in keys:
        d = db.by_key[key]
        ctx.notes.setdefault("definitions_visited", set()).add(key)
        single8 = (not d.fast) and d.nbytes() <= 8

        def one(p, d=d, single8=single8):
            payload, nbytes, classes = p
            ctx.count()
            if any(c in gen.BOUNDARY for c in classes):
                ctx.nt((d.key, payload, nbytes))
            res = ck.check(d, payload, nbytes, classes)
            if single8 and nbytes <= 8:
                ctx.count()
                res += [(b + "|tcp", w, dict(c, via="tcp")) for b, w, c in ck.check(d, payload, nbytes, classes, via="tcp")
                        if not any(b == b0 for b0, _, _ in res)]
            return res

        # systematic sweep: one example per (field, class) with every other field benign
        bp, bn, _ = gen.benign_payload(d)
        pos = {e.field.index: e.pos for e in canboat.ref_decode(d, bp, bn)[0]}
        drawn = []
        for fi, cname, spec in gen.sweep_items(d):
            visited_pairs += 1
            ctx.klass("class:" + cname)
            f = d.fields[fi]
            values = [spec] if isinstance(spec, int) else list(spec[1]) if spec[0] == "choice" and cname in ("source_constant", "f_special", "magnitude_edge") else None
            if values is not None and fi in pos:
                m = ((1 << f.bits) - 1) << pos[fi]
                nb = max(bn, (pos[fi] + f.bits + 7) // 8)
                for v in values:
                    for b, w, c in one(((bp & ~m) | (v << pos[fi]), nb, [cname])):
                        ctx.report(b, w, c)
            else:
                drawn.append((fi, cname, spec))
        if drawn:
            strat = st.sampled_from(drawn).flatmap(lambda it: gen.payloads(d, mode="benign", force={it[0]: (it[1], it[2])}).map(
                lambda p, it=it: (p[0], p[1], [it[1]])))
            ctx.hyp(one, strat, max_examples=3 * len(drawn), name="sweep-drawn")
        ctx.hyp(one, gen.payloads(d, mode="any"), max_examples=n_any, name="any")
        ctx.hyp(one, gen.payloads(d, mode="accepted"), max_examples=n_acc, name="accepted")
        if d.matches:
            # systematic: every one-bit neighbour of every match value (others own, rest benign)
            for f in d.fields:
                if f.match is None or f.index not in pos:
                    continue
                m = ((1 << f.bits) - 1) << pos[f.index]
                for b in range(f.bits):
                    ctx.klass("class:match_bitflip")
                    for bk, w, c in one(((bp & ~m) | ((f.match ^ (1 << b)) << pos[f.index]), bn, ["match_bitflip"])):
                        ctx.report(bk, w, c)
        if d.matches:
            # payloads next to this definition in match space: the returned message must name the definition the database rule selects
            ctx.hyp(one, gen.payloads(d, mode="accepted", pin_match=False), max_examples=max(n_acc, 30), name="match-neighbours")
        # digest twins: two different payloads that collide under a cheap digest (CRC-32, byte sum, XOR, CPython int hash), back to back
        # on one decoder; the second must still be decoded from its own bits
        def twins(p, d=d):
            (pa, na, _), (pb, nb, _), kind = p
            n = max(na, nb)
            if pa == pb or n + 8 > 223:
                return []
            a = pa.to_bytes(n, "little") + bytes(8)
            b = collide.twin(a, pb.to_bytes(n, "little"), kind)
            ctx.count(2)
            ctx.klass("class:digest_twin_" + kind)
            ctx.nt((d.key, "twin", a, b))
            A, B = int.from_bytes(a, "little"), int.from_bytes(b, "little")
            res = ck.check(d, A, n + 8, ["digest_twin_a"])
            res += [(bk + "|after-twin", w, c) for bk, w, c in ck.check(d, B, n + 8, ["digest_twin_" + kind], prelude=A)
                    if not any(bk == b0 for b0, _, _ in res)]
            return res
        ctx.hyp(twins, st.tuples(gen.payloads(d, mode="accepted", extra_bytes=False), gen.payloads(d, mode="accepted", extra_bytes=False),
                                 st.sampled_from(collide.KINDS)), max_examples=n_twin, name="digest-twins")
        if d.index % 40 == 0:
            p = gen.benign_payload(d)
            ctx.sample({"definition": key, "benign_payload_hex": p[0].to_bytes(p[1], "little").hex(), "fields": len(d.fields)})
    ctx.notes["field_class_pairs_visited"] = ctx.notes.get("field_class_pairs_visited", 0) + visited_pairs


def _threads(ctx: Ctx, item):
    from .. import threads
    threads.decode_pass(ctx, "C01", *item)


def run(ctx: Ctx):
    from .. import threads as _th
    tk = [d.key for d in _th.thread_definitions()]
    pmap(ctx, _threads, [(tk[i::16], 2 if ctx.quick else 30, 1000) for i in range(16) if tk[i::16]])
    db = canboat.db()
    keys = [d.key for d in db.defs]
    n_any, n_acc, n_twin = (15, 15, 8) if ctx.quick else (1500, 1500, 200)
    # interleave so that every shard gets a mix of small and large definitions
    shards = [keys[i::64] for i in range(64)]
    pmap(ctx, _work, [(s, n_any, n_acc, n_twin) for s in shards if s])
    ctx.notes["definitions_total"] = len(keys)
    ctx.notes["definitions_visited"] = len(ctx.notes.get("definitions_visited", ()))
    ctx.notes["field_class_pairs_total"] = sum(len(gen.sweep_items(d)) for d in db.defs)


def replay(ctx: Ctx, case):
    if case.get("threads"):
        from .. import threads
        return threads.decode_replay("C01", case)
    ck = Checker(ctx)
    d = canboat.db().by_key[case["definition"]]
    data = bytes.fromhex(case["payload_hex"])
    pre = case.get("prelude_hex")
    res = ck.check(d, int.from_bytes(data, "little"), len(data), case.get("classes", ()), via=case.get("via", "basic"),
                   prelude=int.from_bytes(bytes.fromhex(pre), "little") if pre else None, replaying=True)
    if pre:
        res = [(b + "|after-twin", w, c) for b, w, c in res]
    if case.get("via") == "tcp":
        res = [(b + "|tcp", w, c) for b, w, c in res]
    return res
