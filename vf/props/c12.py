"""C12 - gateway clients deliver every decodable frame once, in order, for any chunking."""
from __future__ import annotations

import asyncio

from hypothesis import strategies as st

from .. import aio, canboat, gen, traffic, wire
from ..common import Ctx, pmap

LEVEL = "exploration"
LEVEL_TEXT = ("The four unmodified clients run on an in-memory transport under asyncio's real stream layer and a virtual clock. Generated "
              "streams of well-framed packets (valid single-frame and fast-packet traffic from several sources, unknown PGNs, malformed "
              "packets, garbage lines, bad checksums) are delivered under generated segmentations (1 byte ... everything; forced cuts "
              "inside headers, inside CR LF, inside AA 55) with generated callback behaviour (return / raise / sleep). The callback trace "
              "must equal what a fresh decoder with the same settings returns for the packets one by one.")
TECHNIQUE = "model-based testing of the receive path against a packet-wise reference decoder under generated segmentations (Hypothesis, virtual-clock asyncio)"
RULE = ("client type x stream of 3..25 packets (serial: also packets containing AA 55 / ending in 0xAA and marker-free stray bytes, plus systematic boundary scenarios) x cut points x callback behaviour per message x yields / quiet-bus gaps between chunks x decoder settings; "
        "oracle: callback trace == reference decoder over the stream's packets (same messages, once each, same order); non-trivial = "
        "segmentation with a cut inside a packet, or >= 1 malformed/unknown packet, or >= 1 failing/slow callback; distinct = (client, "
        "stream, cuts, behaviour)")
ASSUMPTIONS = [
    "streams are concatenations of well-framed packets (13-byte blocks / CR LF lines <= 1 KiB / 20-byte AA 55 packets); resynchronisation "
    "after mis-framed serial input is C20; the EByte control block 'Sorry,Limited' is a fault (C13), not traffic",
    "properties are decided modulo asyncio streams behaving as documented (in-memory transport below the real StreamReader/Protocol/Writer)",
]

KIND_FMT = {"ebyte": "ebyte", "waveshare": "usb", "yd": "yd", "actisense": "actisense"}


def packet_of(kind, item, corrupt=None):
    i = wire.ident(item["pgn"], item["src"], item["dest"], item.get("prio", 3))
    data = item["data"]
    if kind == "ebyte":
        pk = bytearray(wire.ebyte(i, data))
        if corrupt == "nibble":
            pk[0] = 0x80 | 0x0F
        return bytes(pk)
    if kind == "waveshare":
        pk = bytearray(wire.usb(i, data))
        if corrupt == "checksum":
            pk[19] ^= 0x5A
        return bytes(pk)
    if kind == "yd":
        return (wire.yd(i, data) + "\r\n").encode()
    # actisense carries whole messages: only single-frame items are rendered
    return (wire.actisense(item["pgn"], item["src"], item["dest"], item.get("prio", 3), data) + "\r\n").encode()


@st.composite
def streams(draw, kind):
    items = draw(traffic.history(min_msgs=2, max_msgs=8, sources=(1, 2, 9), junk=True))
    packets, kinds = [], []
    for it in items:
        if kind == "actisense" and it["kind"] == "fastframe":
            continue
        r = draw(st.integers(0, 14))
        corrupt = None
        if r == 0 and kind == "ebyte":
            corrupt = "nibble"
        if r == 0 and kind == "waveshare":
            corrupt = "checksum"
        packets.append(packet_of(kind, it, corrupt))
        kinds.append("malformed" if corrupt or it["kind"] == "raw" else "valid")
        if kind in ("yd", "actisense") and r == 1:
            g = draw(st.one_of(st.binary(min_size=0, max_size=40), st.binary(min_size=200, max_size=1000), st.just(b""), st.just(b"A1.1 zz"),
                               st.just(b"00:00:00.000 R zz")))
            g = g.replace(b"\n", b" ").replace(b"\r", b" ")
            packets.append(g + b"\r\n")
            kinds.append("malformed")
    if kind == "actisense":
        # the format carries whole messages: fast-packet payloads (up to 223 bytes, lines of up to ~500 characters) as ONE line each
        db = canboat.db()
        for _ in range(draw(st.integers(0, 3))):
            d = db.by_key[draw(st.sampled_from(traffic.FAST_KEYS))]
            p, nb, _ = draw(gen.payloads(d, mode="accepted", extra_bytes=False))
            line = wire.actisense(d.pgn, draw(st.sampled_from([1, 2, 9])), 255, 3, p.to_bytes(nb, "little")[:223])
            pos = draw(st.integers(0, len(packets)))
            packets.insert(pos, (line + "\r\n").encode())
            kinds.insert(pos, "valid")
    if kind == "waveshare":
        # serial specialities that stay inside the property's domain: packets that contain AA 55 after the header, packets whose
        # last byte (checksum) is 0xAA, and marker-free stray bytes between packets (which lose nothing, C20)
        extra = draw(st.lists(st.sampled_from(["inner_marker_id", "inner_marker_data", "checksum_aa", "stray55", "stray"]), max_size=4))
        for e in extra:
            pos = draw(st.integers(0, len(packets)))
            if e == "inner_marker_id":
                pk = wire.usb(wire.ident(59904, 170, 85, 6), bytes([0x00, 0xEE, 0x00]))
            elif e == "inner_marker_data":
                pk = wire.usb(wire.ident(127250, 3, 255, 2), bytes([7, 0xAA, 0x55, 0, 0, 0, 0, 0xFD]))
            elif e == "checksum_aa":
                pk = next(p for p in (wire.usb(wire.ident(127250, 4, 255, 2), bytes([9, b1, 0x30, 0, 0, 0, 0, 0xFD])) for b1 in range(256)) if p[19] == 0xAA)
            elif e == "stray55":
                pk = b"\x55"
            else:
                pk = draw(st.binary(min_size=1, max_size=12)).replace(b"\xaa\x55", b"\xaa\x54")
                if not pk or pk == b"\xaa":
                    pk = b"\x00"
            packets.insert(pos, pk)
            kinds.insert(pos, "malformed" if e.startswith("stray") else "valid")
    stream = b"".join(packets)
    n = len(stream)
    mode = draw(st.sampled_from(["whole", "bytewise", "random", "boundaries", "inside"]))
    bounds = []
    pos = 0
    for p in packets:
        pos += len(p)
        bounds.append(pos)
    if mode == "whole" or n == 0:
        cuts = []
    elif mode == "bytewise":
        cuts = list(range(1, n))
    elif mode == "random":
        cuts = sorted(set(draw(st.lists(st.integers(1, max(1, n - 1)), max_size=12))))
    elif mode == "boundaries":
        cuts = [b for b in bounds[:-1] if draw(st.booleans())]
    else:
        # forced cuts inside packets: inside the header / marker / line ending
        cuts = set()
        start = 0
        for p, b in zip(packets, bounds):
            off = draw(st.sampled_from([1, 2, 4, len(p) - 1, len(p) - 2, len(p) // 2]))
            if 0 < off < len(p):
                cuts.add(start + off)
            start = b
        cuts = sorted(c for c in cuts if 0 < c < n)
    behaviours = draw(st.lists(st.sampled_from([None, None, None, "raise", 0.05, 0.5]), min_size=0, max_size=12))
    yields = draw(st.sampled_from([0, 0, 0.001, 0.2, 1.5]))
    settings = draw(st.sampled_from([{}, {}, {"exclude_pgns": [130306]}, {"include_pgns": [127250, 129029, 60928]}]))
    return packets, kinds, cuts, behaviours, yields, settings


def run_case(kind, packets, cuts, behaviours, yields, settings):
    stream = b"".join(packets)
    s = aio.Session(kind, client_kwargs=settings)
    s.receive_behaviour = lambda i: behaviours[i] if i < len(behaviours) else None

    async def main(s):
        c = s.make_client()
        await c.connect()
        await asyncio.sleep(0.05)
        link = s.gw.link
        pos = 0
        for cut in list(cuts) + [len(stream)]:
            if cut > pos:
                link.feed(stream[pos:cut])
                pos = cut
                if yields >= 1:
                    from ..common import CLOCK
                    CLOCK.warp(yields)          # a quiet bus: the process clock moves along with the event-loop clock
                await asyncio.sleep(yields)
        await asyncio.sleep(3.0 + sum(b for b in behaviours if isinstance(b, float)))
        s.final_state = c.state.name
        await c.close()
        await asyncio.sleep(0.1)
    outcome = s.run(main)
    got = [aio.canon(m) for _, m in s.received]
    if s.bad_deliveries:
        got.append(("callback called with %s" % s.bad_deliveries[0][1],))
    exp = aio.reference_delivery(KIND_FMT[kind], packets, settings)
    return outcome, got, exp, s


def compare(kind, outcome, got, exp, s, case):
    out = []
    if outcome != "ok":
        out.append((f"C12|{kind}|{outcome}", f"session ended with {outcome}: {s.errors[:1]}", case))
        return out
    if got == exp:
        return out
    if len(got) < len(exp) and got == exp[:len(got)]:
        what = "delivery-stopped"
    elif sorted(map(repr, got)) == sorted(map(repr, exp)):
        what = "reordered"
    elif len(got) > len(exp):
        what = "extra-or-duplicate"
    else:
        what = "missing-or-different"
    out.append((f"C12|{kind}|{what}", f"callback saw {len(got)} messages {[g[0] for g in got][:8]}, reference decoder gives {len(exp)} {[e[0] for e in exp][:8]}", case))
    if getattr(s, "final_state", "CONNECTED") != "CONNECTED":
        out.append((f"C12|{kind}|link-dropped", f"healthy stream but client state is {s.final_state}", case))
    return out


def _work(ctx: Ctx, item):
    kind, n = item

    def one(c):
        packets, kinds, cuts, behaviours, yields, settings = c
        ctx.count()
        case = {"client": kind, "packets": [p.hex() for p in packets], "cuts": cuts, "behaviours": behaviours, "yields": yields, "settings": settings}
        outcome, got, exp, s = run_case(kind, packets, cuts, behaviours, yields, settings)
        bounds = set()
        pos = 0
        for p in packets:
            pos += len(p)
            bounds.add(pos)
        inside = any(c_ not in bounds for c_ in cuts)
        used_beh = [b for b in behaviours[:len(exp)] if b is not None]
        if inside or "malformed" in kinds or used_beh:
            ctx.nt((kind, tuple(packets), tuple(cuts), tuple(map(str, behaviours))))
        ctx.klass("cut_inside_packet" if inside else "cuts_on_boundaries")
        if "malformed" in kinds:
            ctx.klass("stream_with_malformed")
        if used_beh:
            ctx.klass("callback_faults")
        ctx.klass("delivered_messages", len(got))
        if ctx.evaluations % 25 == 1:
            ctx.sample({"client": kind, "packets": len(packets), "first_packets_hex": [p.hex() for p in packets[:2]], "cuts": cuts[:10],
                        "behaviours": behaviours[:6], "settings": settings, "delivered": [g[0] for g in got][:6]})
        return compare(kind, outcome, got, exp, s, case)

    ctx.hyp(one, streams(kind), max_examples=n, name="receive-" + kind)


def _serial_scenarios(ctx: Ctx, item):
    """Systematic serial scenarios: packet ending in 0xAA / containing AA 55, a marker-free stray byte run, further packets, under
    segmentations with read boundaries exactly at the borders."""
    def usb(src, data, pgn=127250, dest=255):
        return wire.usb(wire.ident(pgn, src, dest, 2), data)
    p_aa = next(p for p in (usb(4, bytes([9, b1, 0x30, 0, 0, 0, 0, 0xFD])) for b1 in range(256)) if p[19] == 0xAA)
    p_in = usb(170, bytes([0, 0xEE, 0]), 59904, 85)
    p_dat = usb(3, bytes([7, 0xAA, 0x55, 0, 0, 0, 0, 0xFD]))
    p1, p2 = usb(1, bytes([1, 0x10, 0x27, 0, 0, 0, 0, 0xFD])), usb(2, bytes([2, 0x20, 0x27, 0, 0, 0, 0, 0xFD]))
    for first in (p_aa, p_in, p_dat, p1):
        for stray in (b"", b"\x55", b"\x55\x01\x02", b"\x00", b"\xaa", b"\x55" * 3):
            packets = [first] + ([stray] if stray else []) + [p1, p_aa] + ([stray] if stray else []) + [p2]
            stream = b"".join(packets)
            borders, pos = [], 0
            for p in packets[:-1]:
                pos += len(p)
                borders.append(pos)
            for cuts in ([], borders, borders[:1], list(range(1, len(stream))), [b - 1 for b in borders], [b + 1 for b in borders if b + 1 < len(stream)]):
                ctx.count()
                ctx.nontrivial_extra += 1
                case = {"client": "waveshare", "packets": [p.hex() for p in packets], "cuts": cuts, "behaviours": [], "yields": 0.001, "settings": {}}
                outcome, got, exp, s = run_case("waveshare", packets, cuts, [], 0.001, {})
                for b, w, c in compare("waveshare", outcome, got, exp, s, case):
                    ctx.report(b, w, c)
    ctx.klass("serial_boundary_scenarios")


def _long_session(ctx: Ctx, item):
    """A long healthy session: thousands of packets (several sources, a fast-packet message now and then), read in chunks, with an
    occasionally slow callback. Everything must be delivered once and in order (no queue limit, no drift, no leak of framing state)."""
    from .. import canboat, gen
    kind, n_packets = item
    db = canboat.db()
    gd = db.by_key["129029/gnssPositionData"]
    gp, gn, _ = gen.benign_payload(gd)
    packets = []
    for i in range(n_packets):
        if i % 97 == 5 and kind != "actisense":
            for fr in wire.segment(gp.to_bytes(gn, "little"), (i // 97) % 8):
                packets.append(packet_of(kind, {"pgn": 129029, "src": 4, "dest": 255, "data": fr}))
        else:
            packets.append(packet_of(kind, {"pgn": 127250, "src": 1 + i % 5, "dest": 255, "data": bytes([i % 250, (i * 3) % 200, 0x20, 0, 0, 0, 0, 0xFD])}))
    stream = b"".join(packets)
    cuts = list(range(977, len(stream), 977))
    behaviours = [0.05 if i % 500 == 499 else None for i in range(n_packets + 10)]
    ctx.count()
    ctx.nontrivial_extra += 1
    case = {"client": kind, "long_session": n_packets}
    outcome, got, exp, s = run_case(kind, packets, cuts, behaviours, 0.001, {})
    for b, w, c in compare(kind, outcome, got, exp, s, case):
        ctx.report(b + "|long-session", w, c)
    ctx.klass("long_session_packets", len(packets))


def _clients(ctx: Ctx, item=None):
    """Every decoder setting a client accepts (filters by number / id, manufacturer lists, unit preferences in any spelling, network map):
    the client delivers what a decoder with the same settings returns, also after the link was dropped and re-established."""
    from nmea2000.consts import PhysicalQuantities as PQ
    from .. import clientopts as co
    msgs = (co.standard_traffic(co.CONVERTIBLE + co.FAST + co.KEYED, sources=(1, 2, 3), mfgs=(137, 1855, 229))
            + [co.claim(3, 999, 137)] + co.standard_traffic(co.CONVERTIBLE[:4] + co.KEYED[:3], sources=(3, 1), claims=False))
    sets = [("defaults", lambda: {}),
            ("preferred_units c/DEG/KTS/psi", lambda: {"preferred_units": {PQ.TEMPERATURE: "c", PQ.ANGLE: "DEG", PQ.SPEED: "KTS", PQ.PRESSURE: "psi"}}),
            ("build_network_map=True", lambda: {"build_network_map": True}),
            ("exclude_pgns=['WindData', 127250], exclude_manufacturer_code=['Garmin']", lambda: {"exclude_pgns": ["WindData", 127250], "exclude_manufacturer_code": ["Garmin"]}),
            ("include_pgns=['gnssPositionData', 'temperature', 60928], include_manufacturer_code=['Maretron', 'Garmin'], build_network_map=True",
             lambda: {"include_pgns": ["gnssPositionData", "temperature", 60928], "include_manufacturer_code": ["Maretron", "Garmin"], "build_network_map": True})]
    co.run(ctx, "C12", sets, msgs, reconnects=((), (9,)))

def _dual(ctx: Ctx, item):
    from .. import clientopts as co
    co.dual_pass(ctx, "C12", item[0])


def _sweep(ctx: Ctx, item):
    from .. import clientopts as co
    co.sweep_through_client(ctx, "C12", item[0], item[1], item[2], compare=True)


def run(ctx: Ctx):
    pmap(ctx, _sweep, [(k, part, 4) for k in aio.CLIENT_KINDS for part in range(4)])
    pmap(ctx, _dual, [(k,) for k in aio.CLIENT_KINDS])
    pmap(ctx, _clients, [None])
    pmap(ctx, _serial_scenarios, [(0,)])
    pmap(ctx, _long_session, [(k, 3000 if ctx.quick else 40000) for k in aio.CLIENT_KINDS])
    n = 60 if ctx.quick else 4000
    pmap(ctx, _work, [(k, n) for k in aio.CLIENT_KINDS for _ in range(4)])


def replay(ctx: Ctx, case):
    if "sweep_client" in case:
        sub = Ctx(ctx.pid)
        sub.known_open = {}
        _sweep(sub, (case["sweep_client"], case["part"], case["parts"]))
        return [(b, v["what"], v["case"]) for b, v in sub.found.items()]
    if case.get("dual"):
        from .. import clientopts as co
        return co.dual_replay("C12", "C12", case)
    if case.get("clientopts"):
        from .. import clientopts as co
        return co.replay("C12", _clients, case)
    if "long_session" in case:
        sub = Ctx(ctx.pid)
        sub.known_open = {}
        _long_session(sub, (case["client"], case["long_session"]))
        return [(b, v["what"], v["case"]) for b, v in sub.found.items()]
    packets = [bytes.fromhex(p) for p in case["packets"]]
    outcome, got, exp, s = run_case(case["client"], packets, case["cuts"], case["behaviours"], case["yields"], case["settings"])
    return compare(case["client"], outcome, got, exp, s, case)
