"""C16 - decoder instances are isolated and unharmed by bad input."""
from __future__ import annotations

import contextlib
import copy

from hypothesis import strategies as st

from .. import canboat, gen, traffic, wire
from ..common import Ctx, pmap

LEVEL = "exploration"
LEVEL_TEXT = ("Generated operation histories over 2-3 decoders and 2 encoders alive at the same time (valid frames, truncated frames, unknown "
              "PGNs, out-of-range payloads, malformed text lines, bad checksums, construction of further instances with default and with "
              "caller-owned list arguments that are mutated afterwards, encoder calls), followed by a probe: a single-frame message and a "
              "complete fast-packet message with a sequence counter not used last on that stream. The probe result on every used decoder "
              "must equal the result on a fresh decoder of the same configuration that saw only the history's address claims; replaying "
              "the history on two fresh sets of instances must give identical outputs. Thorough adds a coverage-guided atheris target.")
TECHNIQUE = "fresh-instance differential + replay determinism over generated multi-instance histories (Hypothesis; atheris fuzz target in thorough)"
RULE = ("histories of 5..40 operations (valid / truncated / unknown / unmatched frames, malformed lines, bad USB packets, new instances with caller-owned lists mutated afterwards, encoder calls, time passing) on 2-3 decoders / 2 encoders, probes: single frame, multi-definition single and fast PGNs, 129029; plus an aged-decoder differential (a decoder that has seen every definition vs a fresh one, all definitions); oracle: probe(used decoder) == probe(fresh decoder fed the same claims), "
        "outputs(history) == outputs(history replayed on fresh instances), caller-owned lists and constructor defaults unchanged; "
        "non-trivial = history with >= 1 rejected/ignored input and >= 2 instances used; distinct = history")
ASSUMPTIONS = [
    "the probe stream (PGN 129029 from source 77) is also used by the history, including incomplete messages; the probe's sequence counter "
    "differs from the last first frame that stream has seen on that decoder",
    "timestamps and raw_can_data are not compared",
]

PROBE_SRC = 77
CONFIGS = [
    {},
    {"exclude_pgns": [130306, "rudder"]},
    {"include_pgns": [127250, 129029, "isoAddressClaim", 130306]},
    {"exclude_manufacturer_code": ["Garmin"]},
    {"build_network_map": False, "exclude_pgns": ["windData"]},
    {"exclude_pgns": [60928, 130306]},
    {"include_pgns": [127250, 129029, 127245]},
    {"exclude_manufacturer_code": ["Garmin", "Furuno"], "exclude_pgns": [60928]},
    {"include_manufacturer_code": ["Maretron", "Airmar", "Simrad"], "include_pgns": [127250, 129029, 65285, 65286, 130842, 130850, 130820]},
    # include list made of ids only: the definitions the probes use (their sibling definitions arrive in the histories and are ignored)
    {"include_pgns": ["vesselHeading", "gnssPositionData", "airmarBootStateAcknowledgment", "chetcoDimmer", "furunoSixDegreesOfFreedomMovement",
                      "simnetCommandApStandby", "fusionPowerState"]},
    {"exclude_pgns": ["seatalk1PilotMode", "simnetApCommand", "fusionSetMute", "furunoHeave"], "preferred_units": {}},
]
# (no configuration with network mapping on: its discovery window makes results depend on the time since construction, which differs
#  between the used decoder and the fresh baseline by design)

def odd_address_lines():
    """canboat plain-text lines (frame by frame) whose source / destination lie outside 0..255: first frames of the probe PGNs that
    alias the probe's (pgn, source, destination) when the numbers are packed into bytes."""
    out = []
    for pgn in (129029, 130842, 130850, 130820):
        for src, dest in ((PROBE_SRC - 1, 511), (PROBE_SRC + 256, 255), (PROBE_SRC, 255 + 256), (PROBE_SRC - 1, 255 + 256), (PROBE_SRC + 65536, 255), (-179, 255)):
            for seq in (0, 1, 7):
                out.append("2024-01-01-00:00:00.000,3,%d,%d,%d,8,%02x,2b,01,02,03,04,05,06" % (pgn, src, dest, seq << 5))
    return out


BAD_LINES = odd_address_lines() + ["", "garbage", "A000001.000", "A1.1 zz zz zz", "A000001.000 09FF7 1F112", "X000001.000 09FF7 1F112 00", "A000001.000 09FF7 1F112 0",
             "00:00:00.000 R", "00:00:00.000 Q 09F11201 01 02", "xx R 09F11201 01", "00:00:00.000 R 09F11201 zz", "00:00:00.000 R 09F11201",
             "1,2,3", "2024-01-01-00:00:00.000,3,127250,1,255,8,zz", "notadate,3,127250,1,255,1,00", "2024-01-01-00:00:00.000,3,x,1,255,1,00"]


@st.composite
def ops(draw):
    n_dec = draw(st.integers(2, 3))
    out = []
    items = draw(traffic.history(min_msgs=3, max_msgs=12, sources=(1, 2, PROBE_SRC), junk=True, twins=True,
                                 fast_keys=["129029/gnssPositionData", "126996/productInformation", "127489/engineParametersDynamic"]))
    # drop some frames so that messages stay incomplete
    for it in items:
        r = draw(st.integers(0, 9))
        if r == 0 and it["kind"] == "fastframe" and it.get("frame", 0) > 0:
            continue
        out.append({"op": "feed", "dec": draw(st.integers(0, n_dec - 1)), "item": it})
        extra = draw(st.integers(0, 11))
        if extra == 0:
            out.append({"op": "line", "dec": draw(st.integers(0, n_dec - 1)), "fmt": draw(st.sampled_from(["actisense", "yd", "basic"])),
                        "text": draw(st.sampled_from(BAD_LINES))})
        elif extra == 1:
            pk = bytearray(wire.usb(wire.ident(127250, 1, 255, 2), bytes(8)))
            kind = draw(st.sampled_from(["checksum", "prefix", "short"]))
            if kind == "checksum":
                pk[draw(st.integers(2, 19))] ^= draw(st.integers(1, 255))
            elif kind == "prefix":
                pk[0] = 0
            else:
                pk = pk[:draw(st.integers(2, 19))]
            out.append({"op": "usb", "dec": draw(st.integers(0, n_dec - 1)), "packet": bytes(pk)})
        elif extra == 2:
            out.append({"op": "new", "cfg": draw(st.integers(0, len(CONFIGS) - 1)), "mutate": draw(st.booleans())})
        elif extra == 3:
            out.append({"op": "encode", "enc": draw(st.integers(0, 1)), "fast": draw(st.booleans())})
        elif extra == 5:
            out.append({"op": "warp", "seconds": draw(st.sampled_from([0.5, 1.0, 5.0, 3600.0]))})
        elif extra == 4:
            # a truncated frame on the probe stream
            # ... or a burst of them with one sequence counter: bare first frame, first frame without data, bare continuation frames
            dd = draw(st.integers(0, n_dec - 1))
            if draw(st.booleans()):
                datas = [draw(st.one_of(st.binary(min_size=0, max_size=2), st.integers(0, 7).map(lambda q: bytes([q << 5]))))]
            else:
                sq = draw(st.integers(0, 7)) << 5
                datas = [bytes([sq | draw(st.sampled_from([0, 0, 1, 2, 3, 6, 7, 31]))]) + draw(st.binary(min_size=0, max_size=1))
                         for _ in range(draw(st.integers(1, 4)))]
            for data in datas:
                out.append({"op": "feed", "dec": dd,
                            "item": {"kind": "raw", "pgn": 129029, "src": PROBE_SRC, "dest": 255, "data": data, "msg": -1, "junk": "truncated"}})
    return n_dec, draw(st.lists(st.integers(0, len(CONFIGS) - 1), min_size=n_dec, max_size=n_dec)), out


class World:
    def __init__(self, cfg_idx):
        from nmea2000.decoder import NMEA2000Decoder
        from nmea2000.encoder import NMEA2000Encoder
        self.Dec = NMEA2000Decoder
        self.cfg_idx = list(cfg_idx)
        self.owned = [copy.deepcopy(CONFIGS[i]) for i in cfg_idx]
        self.decs = [NMEA2000Decoder(**c) for c in self.owned]
        self.owned_problem = None
        for i, c in zip(cfg_idx, self.owned):
            if c != CONFIGS[i]:
                self.owned_problem = f"constructor changed the caller's arguments: {CONFIGS[i]} -> {c}"
            # the caller goes on using (and changing) its own lists
            for v in c.values():
                if isinstance(v, list):
                    v.append(127250)
                    v.append("vesselHeading")
                    if 130306 in v:
                        v.remove(130306)
                elif isinstance(v, dict):
                    from nmea2000.consts import PhysicalQuantities as PQ
                    v[PQ.ANGLE] = "deg"
                    v[PQ.TEMPERATURE] = "f"
        self.encs = [NMEA2000Encoder(), NMEA2000Encoder()]
        self.claims = [[] for _ in cfg_idx]
        self.last_seq = [{} for _ in cfg_idx]
        self.outputs = []
        self.rejected = 0
        self.extra = []
        self.rejected_seq = [{} for _ in cfg_idx]

    def run(self, oplist):
        for op in oplist:
            k = op["op"]
            if k == "feed":
                it = op["item"]
                d = op["dec"]
                if it["kind"] == "claim" or it["pgn"] == 60928:
                    # every frame of PGN 60928 that decodes is an address claim, also a truncated one (zero-extended NAME)
                    self.claims[d].append(it)
                if it["src"] == PROBE_SRC and len(it["data"]) >= 2 and (it["data"][0] & 0x1F) == 0:
                    self.last_seq[d][(it["pgn"], PROBE_SRC, it["dest"])] = it["data"][0] >> 5
                if it["pgn"] == 129029 and it["src"] == PROBE_SRC and len(it["data"]) == 1 and (it["data"][0] & 0x1F) == 0:
                    self.rejected_seq[d][(129029, PROBE_SRC, it["dest"])] = it["data"][0] >> 5
                try:
                    r = traffic.feed(self.decs[d], it)
                    self.outputs.append(traffic.canon(r))
                    if r is None:
                        self.rejected += 1
                    elif len(self.outputs) % 2:
                        # the caller owns what it was handed: it edits and empties the returned message
                        for fld in r.fields:
                            fld.value, fld.raw_value, fld.unit_of_measurement = "edited by the caller", -1, "x"
                        r.fields.clear()
                        r.PGN, r.id, r.source, r.hash = -1, "edited", -1, "edited"
                except Exception as e:
                    self.outputs.append(("error", type(e).__name__))
                    self.rejected += 1
            elif k == "line":
                dec = self.decs[op["dec"]]
                fn = {"actisense": dec.decode_actisense_string, "yd": dec.decode_yacht_devices_string, "basic": dec.decode_basic_string}[op["fmt"]]
                try:
                    self.outputs.append(traffic.canon(fn(op["text"])))
                except Exception as e:
                    self.outputs.append(("error", type(e).__name__))
                self.rejected += 1
            elif k == "usb":
                try:
                    self.outputs.append(traffic.canon(self.decs[op["dec"]].decode_usb(op["packet"])))
                except Exception as e:
                    self.outputs.append(("error", type(e).__name__))
                self.rejected += 1
            elif k == "new":
                cfg = copy.deepcopy(CONFIGS[op["cfg"]])
                before = copy.deepcopy(cfg)
                d = self.Dec(**cfg)
                if cfg != before:
                    self.owned_problem = f"constructor changed the caller's arguments: {before} -> {cfg}"
                if op["mutate"]:
                    for v in cfg.values():
                        if isinstance(v, list):
                            v.append(127250)
                            v.append("vesselHeading")
                        elif isinstance(v, dict):
                            v["edited"] = "by the caller"
                    # ... and the application reconfigures THAT decoder in place (switches its units, clears its maps)
                    from nmea2000.consts import PhysicalQuantities as PQ
                    for name, val in (("preferred_units", {PQ.ANGLE: "deg", PQ.TEMPERATURE: "c", PQ.SPEED: "kts", PQ.PRESSURE: "bar"}),):
                        cur = getattr(d, name, None)
                        if isinstance(cur, dict):
                            cur.update(val)
                self.extra.append(d)
            elif k == "warp":
                from ..common import CLOCK
                CLOCK.warp(op["seconds"])        # real time passes (process clock advanced)
            elif k == "encode":
                m = gen.benign_message(canboat.db().by_key["129029/gnssPositionData" if op["fast"] else "127250/vesselHeading"])
                try:
                    self.outputs.append(("enc", [p.hex() for p in self.encs[op["enc"]].encode_ebyte(m)]))
                except Exception as e:
                    self.outputs.append(("error", type(e).__name__))

    def probe(self, dec, last_seq, rejected_seq=None):
        """-> canonical results of the two probe messages on decoder dec."""
        res = []
        vh = canboat.db().by_key["127250/vesselHeading"]
        item = {"kind": "single", "pgn": 127250, "src": PROBE_SRC, "dest": 255, "data": bytes([7, 0x10, 0x27, 0, 0, 0, 0, 0xFD])}
        try:
            res.append(traffic.canon(traffic.feed(dec, item)))
        except Exception as e:
            res.append(("error", type(e).__name__, str(e)))
        # a valid frame of a multi-definition PGN without fallback (its dispatcher also sees payloads no definition matches)
        for key in ("65285/airmarBootStateAcknowledgment", "65286/chetcoDimmer"):
            dd = canboat.db().by_key[key]
            bp, bn, _ = gen.benign_payload(dd)
            try:
                res.append(traffic.canon(traffic.feed(dec, {"kind": "single", "pgn": dd.pgn, "src": PROBE_SRC, "dest": 255, "data": bp.to_bytes(bn, "little")[:8]})))
            except Exception as e:
                res.append(("error", type(e).__name__, str(e)))
        # ... and complete fast-packet messages of multi-definition PGNs without fallback, with a fresh sequence counter
        for key in ("130842/furunoSixDegreesOfFreedomMovement", "130850/simnetCommandApStandby", "130820/fusionPowerState"):
            dd = canboat.db().by_key[key]
            bp, bn, _ = gen.benign_payload(dd)
            seq = (last_seq.get((dd.pgn, PROBE_SRC, 255), 6) + 1) % 8
            r = None
            for fr in wire.segment(bp.to_bytes(bn, "little"), seq):
                try:
                    r = traffic.feed(dec, {"kind": "fastframe", "pgn": dd.pgn, "src": PROBE_SRC, "dest": 255, "data": fr})
                except Exception as e:
                    r = ("error", type(e).__name__, str(e))
                    break
            res.append(traffic.canon(r) if not isinstance(r, tuple) else r)
        gp, gn, _ = gen.benign_payload(canboat.db().by_key["129029/gnssPositionData"])
        seq = (last_seq.get((129029, PROBE_SRC, 255), 6) + 1) % 8
        # a first frame that was rejected with an error has not used its counter: the probe may carry exactly that one
        rj = (rejected_seq or {}).get((129029, PROBE_SRC, 255))
        if rj is not None and rj != last_seq.get((129029, PROBE_SRC, 255)):
            seq = rj
        r = None
        for fr in wire.segment(gp.to_bytes(gn, "little") + bytes(43 - gn if gn < 43 else 0), seq):
            try:
                r = traffic.feed(dec, {"kind": "fastframe", "pgn": 129029, "src": PROBE_SRC, "dest": 255, "data": fr})
            except Exception as e:
                r = ("error", type(e).__name__, str(e))
                break
        res.append(traffic.canon(r) if not isinstance(r, tuple) else r)
        return res


def run_case(n_dec, cfg_idx, oplist):
    import inspect
    from nmea2000.decoder import NMEA2000Decoder
    defaults_before = repr(inspect.signature(NMEA2000Decoder.__init__))
    W = World(cfg_idx)
    W.run(oplist)
    case = {"n_dec": n_dec, "cfg": list(cfg_idx), "ops": [jsonop(o) for o in oplist]}
    out = []
    # 1. replay determinism on fresh instances
    W2 = World(cfg_idx)
    W2.run(oplist)
    if W2.outputs != W.outputs:
        i = next(i for i, (a, b) in enumerate(zip(W.outputs, W2.outputs)) if a != b)
        out.append(("C16|replay-differs", f"the same history gives different output at operation result {i} when replayed on fresh instances", case))
    # time passes between the history and the probe when the history says so
    if any(o["op"] == "warp" for o in oplist[-3:]) or len(oplist) % 2:
        from ..common import CLOCK
        CLOCK.warp(2.0)
    # 2. probe vs fresh decoder that saw only the claims
    for di, dec in enumerate(W.decs):
        fresh = NMEA2000Decoder(**copy.deepcopy(CONFIGS[cfg_idx[di]]))
        for c in W.claims[di]:
            try:
                traffic.feed(fresh, c)
            except Exception:
                pass
        # ... and one that saw only the LATEST claim of every address (what a source is, is decided by its most recent claim)
        fresh2 = NMEA2000Decoder(**copy.deepcopy(CONFIGS[cfg_idx[di]]))
        latest = {}
        for c in W.claims[di]:
            latest[c["src"]] = c
        for c in W.claims[di]:
            if latest.get(c["src"]) is c:
                try:
                    traffic.feed(fresh2, c)
                except Exception:
                    pass
        got = W.probe(dec, W.last_seq[di], W.rejected_seq[di])
        exp = W.probe(fresh, W.last_seq[di], W.rejected_seq[di])
        exp2 = W.probe(fresh2, W.last_seq[di], W.rejected_seq[di])
        names = ("single", "multidef-65285", "multidef-65286", "multidef-fast-130842", "multidef-fast-130850", "multidef-fast-130820", "fast")
        for name, g, e in zip(names, got, exp):
            if g != e:
                out.append((f"C16|probe-{name}", f"decoder {di} (config {CONFIGS[cfg_idx[di]]}): {name} probe after the history = {str(g)[:120]}, on a fresh decoder = {str(e)[:120]}", case))
        if not out:
            for name, g, e in zip(names, got, exp2):
                if g != e:
                    out.append((f"C16|probe-{name}|latest-claims-only", f"decoder {di} (config {CONFIGS[cfg_idx[di]]}): {name} probe after the history = {str(g)[:160]}, on a fresh "
                                f"decoder that was given only the latest claim of every address = {str(e)[:160]}", case))
    if W.owned_problem:
        out.append(("C16|caller-arguments-changed", W.owned_problem, case))
    if repr(inspect.signature(NMEA2000Decoder.__init__)) != defaults_before:
        out.append(("C16|defaults-changed", "constructor default arguments changed during the history", case))
    # a decoder built with defaults after everything still behaves like the first
    d_new = NMEA2000Decoder()
    if W.probe(d_new, {}) != W.probe(NMEA2000Decoder(), {}):
        out.append(("C16|defaults-poisoned", "two decoders built with default arguments disagree", case))
    return out, W


def jsonop(o):
    o = dict(o)
    if "item" in o:
        o["item"] = traffic.item_json(o["item"])
    if "packet" in o:
        o["packet"] = o["packet"].hex()
    return o


def unjsonop(o):
    o = dict(o)
    if "item" in o:
        o["item"] = traffic.item_from_json(o["item"])
    if "packet" in o:
        o["packet"] = bytes.fromhex(o["packet"])
    return o


def _work(ctx: Ctx, item):
    n, = item

    def one(c):
        n_dec, cfg_idx, oplist = c
        ctx.count()
        res, W = run_case(n_dec, cfg_idx, oplist)
        used = len({o.get("dec") for o in oplist if "dec" in o})
        if W.rejected and used >= 2:
            ctx.nt(repr([jsonop(o) for o in oplist]))
        for k in {o["op"] for o in oplist}:
            ctx.klass("history_with_" + k)
        if any(o["op"] == "feed" and o["item"].get("junk") for o in oplist):
            ctx.klass("history_with_junk_frames")
        if ctx.evaluations % 40 == 1:
            ctx.sample({"decoders": n_dec, "configs": cfg_idx, "operations": len(oplist), "rejected_or_ignored": W.rejected,
                        "first_ops": [jsonop(o) for o in oplist[:3]]})
        return res

    ctx.hyp(one, ops(), max_examples=n, name="isolation", rounds=3, shrink=not ctx.quick)


def _reclaim(ctx: Ctx, item=None):
    """Systematic: an address is claimed by a device of one manufacturer, sends data, and is then claimed by a device of another one (and
    the other way round), for every configuration: afterwards the decoder answers like a fresh one that was given just the claims."""
    heading = {"kind": "single", "pgn": 127250, "src": PROBE_SRC, "dest": 255, "data": bytes([1, 0x10, 0x27, 0, 0, 0, 0, 0xFD]), "msg": 1}
    n = 0
    for ci in range(len(CONFIGS)):
        for a, b in ((229, 137), (137, 229), (1855, 135), (135, 1855), (229, 229)):
            ops_ = []
            for k, mfg in enumerate((a, b)):
                nm = traffic.iso_name(900 + k, mfg)
                ops_.append({"op": "feed", "dec": 0, "item": {"kind": "claim", "pgn": 60928, "src": PROBE_SRC, "dest": 255, "data": nm.to_bytes(8, "little"),
                                                                "msg": 10 * k, "name": nm}})
                ops_.append({"op": "feed", "dec": 0, "item": dict(heading, msg=10 * k + 1)})
            res, W = run_case(2, [ci, ci], ops_)
            ctx.count()
            ctx.nontrivial_extra += 1
            n += 1
            for bk, w, c in res:
                ctx.report(bk + "|reclaim", w, c)
    ctx.klass("reclaimed_address_cases", n)


def _late(ctx: Ctx, item=None):
    """A decoder constructed in a process that has been running for a long time (or whose wall clock was stepped) answers like one
    constructed right after start-up: the moment of construction is not an input."""
    from nmea2000.decoder import NMEA2000Decoder
    from ..common import CLOCK
    heading = {"kind": "single", "pgn": 127250, "src": 33, "dest": 255, "data": bytes([1, 0x10, 0x27, 0, 0, 0, 0, 0xFD])}
    claim = {"kind": "claim", "pgn": 60928, "src": 34, "dest": 255, "data": traffic.iso_name(77, 137).to_bytes(8, "little")}
    heading2 = dict(heading, src=34)

    def behaviour(cfg):
        d = NMEA2000Decoder(**copy.deepcopy(cfg))
        out = []
        for it in (heading, claim, heading2, heading):
            try:
                out.append(traffic.canon(traffic.feed(d, it)))
            except Exception as e:
                out.append(("error", type(e).__name__))
        return out
    n = 0
    for cfg in CONFIGS + [{"build_network_map": True}, {"build_network_map": True, "exclude_manufacturer_code": ["Garmin"]}]:
        CLOCK.reset()          # (own shard process) back to a young process with an unstepped clock
        base = behaviour(cfg)
        for how, amount in (("warp", 700.0), ("warp", 86400.0), ("wall", 3600.0), ("wall", -3600.0)):
            if how == "warp":
                CLOCK.warp(amount)
            else:
                CLOCK.step_wall(amount)
            later = behaviour(cfg)
            ctx.count()
            ctx.nontrivial_extra += 1
            n += 1
            if later != base:
                ctx.report("C16|construction-time-matters", f"config {cfg}: a decoder constructed after {how} {amount} s behaves differently from one constructed "
                           f"before: {str(later)[:200]} vs {str(base)[:200]}", {"late": True})
    ctx.klass("late_construction_cases", n)


def _threads(ctx: Ctx, item):
    from .. import threads
    threads.decode_pass(ctx, "C16", *item)


def _aged(ctx: Ctx, item):
    """A decoder that has seen the whole database (a benign message of every definition, pre-combined and frame by frame, plus junk)
    must decode any further message exactly like a fresh decoder."""
    from hypothesis import strategies as st
    from nmea2000.decoder import NMEA2000Decoder
    part, parts, n = item
    db = canboat.db()
    from ..common import debug_logging
    claim = traffic.render({"pgn": 60928, "src": PROBE_SRC, "dest": 255, "data": traffic.iso_name(4242, 137).to_bytes(8, "little")})
    claim3 = traffic.render({"pgn": 60928, "src": 3, "dest": 255, "data": traffic.iso_name(77, 229).to_bytes(8, "little")})

    def mapped():
        # network map on (messages carry hashes and the sender's identity); the senders have claimed their addresses
        dec = NMEA2000Decoder(build_network_map=True)
        dec.decode_tcp(claim)
        dec.decode_tcp(claim3)
        return dec
    aged = mapped()
    for d in db.defs:
        if not d.supported:
            continue
        bp, bn, _ = gen.benign_payload(d)
        for via in ("combined", "frames"):
            try:
                if via == "combined":
                    aged.decode_basic_string(gen.basic_string(d.pgn, bp, bn, src=3), already_combined=True)
                elif d.fast and bn <= 223:
                    for fr in wire.segment(bp.to_bytes(bn, "little"), d.index % 8):
                        traffic.feed(aged, {"kind": "fastframe", "pgn": d.pgn, "src": 3, "dest": 255, "data": fr})
                elif not d.fast and bn <= 8:
                    traffic.feed(aged, {"kind": "single", "pgn": d.pgn, "src": 3, "dest": 255, "data": bp.to_bytes(bn, "little")})
            except Exception:
                pass
    for pgn in (65000, 131000, 65285, 130817):
        try:
            traffic.feed(aged, {"kind": "raw", "pgn": pgn, "src": 3, "dest": 255, "data": bytes([0xE5, 0x98, 1, 2, 3, 4, 5, 6])})
        except Exception:
            pass
    # address claims are left out of the probes: they legitimately change what the aged decoder returns afterwards (C11)
    keys = [d.key for d in db.defs if d.supported and d.pgn != 60928][part::parts]
    seqs = {}
    for key in keys:
        d = db.by_key[key]

        def one(p, via, d=d):
            payload, nbytes, classes = p
            ctx.count()
            ctx.nt((d.key, payload, via))
            res = []
            outs = []
            verbose = mapped()      # a fresh decoder working with the library's DEBUG logging enabled
            for dec in (aged, mapped(), verbose):
                try:
                  with (debug_logging() if dec is verbose else contextlib.nullcontext()):
                      if via == "combined" or (d.fast and nbytes > 223) or (not d.fast and nbytes > 8):
                          r = dec.decode_basic_string(gen.basic_string(d.pgn, payload, nbytes, src=PROBE_SRC), already_combined=True)
                      elif d.fast:
                          k = (id(dec) if dec is aged else 0, d.pgn)
                          seqs[k] = (seqs.get(k, 5) + 1) % 8
                          r = None
                          for fr in wire.segment(payload.to_bytes(nbytes, "little"), seqs[k]):
                              r = traffic.feed(dec, {"kind": "fastframe", "pgn": d.pgn, "src": PROBE_SRC, "dest": 255, "data": fr})
                      else:
                          r = traffic.feed(dec, {"kind": "single", "pgn": d.pgn, "src": PROBE_SRC, "dest": 255, "data": payload.to_bytes(nbytes, "little")})
                      outs.append(traffic.canon(r))
                except Exception as e:
                    outs.append(("error", type(e).__name__, str(e)[:80]))
            ctx.klass("aged_probe_returns_message" if outs[1] is not None and outs[1][0] != "error" else "aged_probe_returns_nothing")
            if outs[0] != outs[1]:
                res.append((f"C16|aged-decoder|{via}", f"{d.key}: a decoder that has seen the whole database returns {str(outs[0])[:1200]}, a fresh one {str(outs[1])[:1200]}",
                            {"aged": True, "definition": d.key, "payload_hex": payload.to_bytes(nbytes, "little").hex(), "via": via}))
            if outs[2] != outs[1]:
                res.append((f"C16|logging-dependent|{via}", f"{d.key}: a decoder returns {str(outs[2])[:600]} while the library's DEBUG logging is enabled, {str(outs[1])[:600]} otherwise",
                            {"aged": True, "definition": d.key, "payload_hex": payload.to_bytes(nbytes, "little").hex(), "via": via}))
            return res
        ctx.hyp(one, gen.payloads(d, mode="accepted", extra_bytes=False), st.sampled_from(["combined", "frames"]), max_examples=n, name="aged", shrink=False, rounds=2)
    ctx.klass("aged_decoder_probes")


def run(ctx: Ctx):
    pmap(ctx, _reclaim, [None])
    from .. import threads as _th
    tk = [d.key for d in _th.thread_definitions()]
    pmap(ctx, _threads, [(tk[i::16], 2 if ctx.quick else 30, 1000) for i in range(16) if tk[i::16]])
    pmap(ctx, _late, [None])
    pmap(ctx, _aged, [(i, 16, 2 if ctx.quick else 40) for i in range(16)])
    n = 40 if ctx.quick else 1500
    pmap(ctx, _work, [(n,)] * 16)
    if not ctx.quick:
        from ..fuzz import run_fuzz
        run_fuzz(ctx, "c16", seconds=240)


def replay(ctx: Ctx, case):
    if case.get("threads"):
        from .. import threads
        return threads.decode_replay("C16", case)
    if case.get("late"):
        sub = Ctx(ctx.pid)
        sub.known_open = {}
        _late(sub)
        return [(b, v["what"], v["case"]) for b, v in sub.found.items()]
    if case.get("aged"):
        sub = Ctx(ctx.pid)
        sub.known_open = {}
        holder = []
        d = canboat.db().by_key[case["definition"]]
        data = bytes.fromhex(case["payload_hex"])

        def fake(check, *a, **k):
            if check.__defaults__ and check.__defaults__[0] is d:
                holder.extend(check((int.from_bytes(data, "little"), len(data), []), case["via"]))
        sub.hyp = fake
        idx = [x.key for x in canboat.db().defs if x.supported and x.pgn != 60928].index(d.key)
        _aged(sub, (idx % 16, 16, 1))
        return holder
    res, _ = run_case(case["n_dec"], case["cfg"], [unjsonop(o) for o in case["ops"]])
    return res + [(b + "|reclaim", w, c) for b, w, c in res]
