"""C11 - messages carry the identity of their source's latest address claim."""
from __future__ import annotations

import datetime as _dt

from hypothesis import strategies as st

from .. import canboat, traffic
from ..common import Ctx, pmap

LEVEL = "exploration"
LEVEL_TEXT = ("Model-based testing over generated histories of address claims and data traffic from several source addresses: a reference "
              "model (source -> last NAME, identity attributes computed from the NAME by the database model) predicts for every input "
              "whether a message is returned and which identity it carries, under manufacturer exclude/include lists in any letter case, "
              "network mapping on/off and the claim PGN filtered or not, with the decoder's clock substituted and kept inside the "
              "discovery window. Histories are bounded (<= 14 messages).")
TECHNIQUE = "model-based testing (Hypothesis histories) against a source-map reference model with a controlled clock"
RULE = ("histories of 4..14 messages (claims from a small NAME pool so that identical re-claims, re-claims with another NAME and one NAME on "
        "two addresses occur; single frames; fast-packet frames interleaved with claims) x manufacturer exclude/include lists (any case) x "
        "network map on/off x claim PGN filtered/not; oracle: per input the model's verdict and identity; non-trivial = history with a "
        "re-claim, or >= 2 claimed sources, or data before claim; distinct = (configuration, history)")
ASSUMPTIONS = [
    "nmea2000.decoder.datetime is replaced (harness process only) by a controlled clock: 0 .. 9 min 59 s after construction, or after "
    "10 min 1 s (then an unclaimed source is let through without identity; the exact boundary second is avoided)",
    "a fast-packet message is expected iff every one of its frames passed the source gate at the time it arrived; it carries the identity "
    "valid when its last frame arrives",
    "for NAMEs with a manufacturer code unknown to the database the include/exclude verdict is not asserted (the statement does not define it)",
    "address claims themselves are returned (unless the claim PGN is filtered) whatever the manufacturer lists say",
]

IDENT_ATTRS = ("unique_number", "manufacturer_code", "device_instance", "device_function", "device_class", "system_instance", "industry_group", "name")


class Clock(_dt.datetime):
    offset = 0.0
    base = _dt.datetime(2024, 1, 1, 12, 0, 0)

    @classmethod
    def now(cls, tz=None):
        return cls.base + _dt.timedelta(seconds=cls.offset)


def anycase(s, k):
    return [s, s.lower(), s.upper(), s.swapcase()][k % 4]


@st.composite
def configs(draw):
    names = [n for _, n in traffic.MANUFACTURERS if n]
    mode = draw(st.sampled_from(["none", "exclude", "include", "both", "both"]))
    lst, lst2 = [], []
    if mode != "none":
        for _ in range(draw(st.integers(1, 3))):
            lst.append(anycase(draw(st.sampled_from(names + ["Nobody Inc"])), draw(st.integers(0, 3))))
    if mode == "both":
        # an exclude list AND an include list (the constructor takes both): a manufacturer passes if it passes each of them. The
        # include list overlaps the exclude list more often than not - that is where "passes both" differs from "passes one".
        for _ in range(draw(st.integers(1, 3))):
            lst2.append(anycase(draw(st.sampled_from(names + [x for x in lst] * 2)), draw(st.integers(0, 3))))
    cfg = {"mode": mode, "list": lst, "map": draw(st.booleans()), "filter_claims": draw(st.sampled_from([None, None, "num", "id"]))}
    if mode == "both":
        cfg["include_list"] = lst2
    return cfg


def run_case(cfg, pool, items, offsets):
    import nmea2000.decoder as D
    from nmea2000.decoder import NMEA2000Decoder
    saved = D.datetime
    D.datetime = Clock
    try:
        Clock.offset = 0.0
        kw = {"build_network_map": cfg["map"]}
        if cfg["mode"] == "exclude":
            kw["exclude_manufacturer_code"] = list(cfg["list"])
        elif cfg["mode"] == "include":
            kw["include_manufacturer_code"] = list(cfg["list"])
        elif cfg["mode"] == "both":
            kw["exclude_manufacturer_code"] = list(cfg["list"])
            kw["include_manufacturer_code"] = list(cfg["include_list"])
        if cfg["filter_claims"] == "num":
            kw["exclude_pgns"] = [60928]
        elif cfg["filter_claims"] == "id":
            kw["exclude_pgns"] = ["isoAddressClaim"]
        dec = NMEA2000Decoder(**kw)
        model = {}
        lst = {x.lower() for x in cfg["list"]}
        lst2 = {x.lower() for x in cfg.get("include_list", [])}
        out = []
        msg_ok = {}          # message index -> all frames accepted so far
        first_ok = {}        # (pgn, src, dest, sequence counter) -> messages whose first frame was let through
        stats = {"reclaim": 0, "claimed_sources": 0, "data_before_claim": 0, "withheld": 0, "filtered": 0, "returned": 0}
        case = {"config": cfg, "items": [traffic.item_json(i) for i in items], "offsets": list(offsets)}
        for pos, (it, off) in enumerate(zip(items, offsets)):
            Clock.offset = off
            try:
                r = traffic.feed(dec, it)
                err = None
            except Exception as e:
                r, err = None, e
            src = it["src"]
            if it["kind"] == "claim":
                if src in model and model[src] != it["name"]:
                    stats["reclaim"] += 1
                before = dict(model)
                model[src] = it["name"]
                ident = traffic.name_identity(it["name"])
                if cfg["filter_claims"]:
                    if r is not None:
                        out.append(("C11|claim-returned-though-filtered", f"position {pos}: filtered address claim was returned", case))
                elif r is None:
                    out.append(("C11|claim-not-returned", f"position {pos}: address claim from {src} not returned ({err})", case))
                else:
                    out += check_identity(r, ident, pos, case, "claim")
                continue
            name = model.get(src)
            ident = traffic.name_identity(name) if name is not None else None
            gate = True
            undefined = False
            if ident is None:
                stats["data_before_claim"] += 1
                if cfg["map"] and off < 600.0:
                    gate = False
                    stats["withheld"] += 1
                elif cfg["map"]:
                    stats["after_window_unclaimed"] = stats.get("after_window_unclaimed", 0) + 1
            elif ident["manufacturer_code"] is None:
                undefined = cfg["mode"] != "none"
            else:
                m = ident["manufacturer_code"].lower()
                if cfg["mode"] == "exclude" and m in lst:
                    gate = False
                if cfg["mode"] == "include" and m not in lst:
                    gate = False
                if cfg["mode"] == "both" and (m in lst or m not in lst2):
                    gate = False
                if not gate:
                    stats["filtered"] += 1
            mi = it["msg"]
            if undefined:
                msg_ok[mi] = None
            elif msg_ok.get(mi, True) is not None:
                msg_ok[mi] = msg_ok.get(mi, True) and gate
            last = it["kind"] in ("single", "combined") or (it["kind"] == "fastframe" and is_last(items, pos))
            expect_msg = last and msg_ok[mi] is True
            # Frames are filtered one by one, so an EARLIER message of the same stream (PGN, source, destination) whose first frame was let
            # through and whose later frames were withheld leaves its beginning behind in the reassembly slot; a later message with the
            # same sequence counter then continues / collides with it. What the decoder returns for such a message is reassembly
            # behaviour (C04), not identity or manufacturer filtering: no expectation either way.
            stale = False
            if it["kind"] == "fastframe":
                skey = (it["pgn"], src, it["dest"], it["data"][0] >> 5)
                stale = any(mj != mi and msg_ok.get(mj) is not True for mj in first_ok.get(skey, ()))
                if it.get("frame") == 0 and gate and not undefined:
                    first_ok.setdefault(skey, set()).add(mi)
                if stale:
                    stats["stale_beginning_on_stream"] = stats.get("stale_beginning_on_stream", 0) + 1
            if msg_ok[mi] is None:
                if r is not None:
                    out += check_identity(r, ident, pos, case, "data")
                continue
            if stale and ((r is not None and not msg_ok[mi] and gate) or (expect_msg and r is None)):
                pass
            elif r is not None and not msg_ok[mi]:
                why = "unclaimed source with network map on" if ident is None else f"manufacturer {ident['manufacturer_code']!r} not allowed by {cfg['mode']} {cfg['list']}"
                kind = "leak-before-claim" if ident is None else "leak-manufacturer-" + cfg["mode"]
                out.append((f"C11|{kind}", f"position {pos}: message {r.PGN}/{r.id} from source {src} returned although {why}", case))
            elif expect_msg and r is None:
                out.append(("C11|withheld", f"position {pos}: message from source {src} (identity {ident and ident['manufacturer_code']}) should be returned"
                            + (f" ({type(err).__name__}: {err})" if err else ""), case))
            elif r is not None and not last:
                out.append(("C11|early", f"position {pos}: message returned before its last frame", case))
            if r is not None:
                stats["returned"] += 1
                out += check_identity(r, ident, pos, case, "data")
        stats["claimed_sources"] = len(model)
        return out, stats
    finally:
        D.datetime = saved


def is_last(items, pos):
    it = items[pos]
    return not any(j["msg"] == it["msg"] for j in items[pos + 1:])


def check_identity(r, ident, pos, case, kind):
    got = r.source_iso_name
    if ident is None:
        if got is not None:
            return [(f"C11|identity-from-nowhere|{kind}", f"position {pos}: source {r.source} never claimed but message carries {got}", case)]
        return []
    if got is None:
        return [(f"C11|identity-missing|{kind}", f"position {pos}: source {r.source} claimed NAME {ident['name']:#x} but message carries no identity", case)]
    out = []
    for a in IDENT_ATTRS:
        if getattr(got, a) != ident[a]:
            stale = "stale-or-foreign" if a == "name" else a
            out.append((f"C11|identity-{stale}|{kind}", f"position {pos}: source {r.source} identity {a} = {getattr(got, a)!r}, latest claim says {ident[a]!r}", case))
            break
    return out


def _work(ctx: Ctx, item):
    n, = item

    @st.composite
    def cases(draw):
        pool = draw(st.lists(traffic.names(), min_size=2, max_size=3, unique=True))
        items = draw(traffic.history(min_msgs=4, max_msgs=14, sources=(1, 2, 3, 4), name_pool=pool, commanded=True,
                                     single_keys=traffic.SINGLE_KEYS + ["59904/isoRequest"] * 3,
                                     fast_keys=["129029/gnssPositionData", "127489/engineParametersDynamic"]))
        # time between two inputs; sometimes the system time is stepped BACK in between (NTP correction, operator, DST in local-time systems)
        gaps = draw(st.lists(st.sampled_from([0.0, 0.001, 1.0, 20.0, 0.0, 1.0, -0.5, -45.0]), min_size=len(items), max_size=len(items)))
        # mostly inside the 10-minute discovery window; sometimes the history straddles or lies after its end (an unclaimed source
        # is then let through without identity, and a later claim must still take effect)
        start = draw(st.sampled_from([0.0, 0.0, 300.0, 590.0, 595.0, 700.0]))
        cap = 599.0 if start < 590.0 else 5000.0
        offs, t = [], start
        for g in gaps:
            t = max(0.0, min(t + g, cap))
            if 599.0 < t < 601.0:
                t = 601.0            # stay clear of the exact boundary (strict / non-strict comparison is not specified)
            offs.append(t)
        return draw(configs()), pool, items, offs

    def one(c):
        cfg, pool, items, offs = c
        ctx.count()
        res, stats = run_case(cfg, pool, items, offs)
        if stats["reclaim"] or stats["claimed_sources"] >= 2 or stats["data_before_claim"]:
            ctx.nt((repr(cfg), tuple((i["pgn"], i["src"], i["data"]) for i in items)))
        for k, v in stats.items():
            if v:
                ctx.klass("history_with_" + k)
        ctx.klass(f"cfg:{cfg['mode']}:map={cfg['map']}")
        if ctx.evaluations % 40 == 1:
            ctx.sample({"config": cfg, "frames": len(items), "stats": stats})
        return res

    ctx.hyp(one, cases(), max_examples=n, name="sourcemap")


def _deep(ctx: Ctx, item):
    """A decoder with a manufacturer filter that lives through millions of frames: the excluded manufacturer's traffic never leaks and the
    other senders keep their identity, however long ago they claimed."""
    from nmea2000.decoder import NMEA2000Decoder
    from .. import wire
    n, mode = item
    kw = {"exclude_manufacturer_code": ["Garmin"]} if mode == "exclude" else {"include_manufacturer_code": ["Maretron"], "build_network_map": True}
    dec = NMEA2000Decoder(**kw)
    names = {5: traffic.iso_name(501, 229), 7: traffic.iso_name(701, 137)}       # 5: Garmin (filtered out), 7: Maretron
    for src, nm in names.items():
        dec.decode_tcp(traffic.render({"pgn": 60928, "src": src, "dest": 255, "data": nm.to_bytes(8, "little")}))
    data = bytes([7, 0x10, 0x27, 0, 0, 0, 0, 0xFD])
    pk = {src: wire.ebyte(wire.ident(127250, src, 255, 2), data) for src in names}
    fast = wire.segment(bytes(range(1, 20)), 0)
    leak = lost = wrong = 0
    first = None
    for i in range(n):
        src = 5 if i % 3 == 0 else 7
        try:
            r = dec.decode_tcp(pk[src])
        except Exception as e:
            ctx.report(f"C11|deep|decoder-error|{mode}", f"frame {i + 3} of the decoder's life: {type(e).__name__}: {e}", {"deep": n, "mode": mode})
            break
        if src == 5:
            if r is not None:
                leak += 1
                first = first or ("leak", i)
        elif r is None:
            lost += 1
            first = first or ("lost", i)
        elif r.source_iso_name is None or r.source_iso_name.name != names[7]:
            wrong += 1
            first = first or ("identity", i)
    ctx.count(n)
    ctx.nontrivial_extra += 1
    ctx.klass("deep_history_frames", n)
    case = {"deep": n, "mode": mode}
    if leak:
        ctx.report(f"C11|deep|leak-manufacturer-{mode}", f"{leak} frames of the filtered-out manufacturer were returned, the first one as frame number {first[1] + 3} of the decoder's life", case)
    if lost:
        ctx.report(f"C11|deep|permitted-lost|{mode}", f"{lost} frames of the permitted sender were not returned (first: {first})", case)
    if wrong:
        ctx.report(f"C11|deep|identity-lost|{mode}", f"{wrong} messages of the permitted sender lost their identity (first: {first})", case)


def _manufacturers(ctx: Ctx, item=None):
    """Every manufacturer code of the database table: a device of that manufacturer claims, its data is withheld by an exclude list naming
    the manufacturer (any letter case) and let through by an include list naming it; the identity says the table's name."""
    from nmea2000.decoder import NMEA2000Decoder
    table = canboat.db().lookups["MANUFACTURER_CODE"]
    data = {"kind": "single", "pgn": 127250, "src": 9, "dest": 255, "data": bytes([7, 0x10, 0x27, 0, 0, 0, 0, 0xFD])}
    n = 0
    for code, name in sorted(table.items()):
        if not name:
            continue
        nm = traffic.iso_name(4000 + code, code)
        claim = {"kind": "claim", "pgn": 60928, "src": 9, "dest": 255, "data": nm.to_bytes(8, "little")}
        for mode, lst, expect in (("exclude", [name.swapcase()], False), ("include", [name.upper()], True), ("exclude", ["No Such Maker"], True),
                                  ("include", ["No Such Maker"], False)):
            dec = NMEA2000Decoder(**{mode + "_manufacturer_code": lst})
            try:
                c = traffic.feed(dec, claim)
                r = traffic.feed(dec, data)
            except Exception as e:
                ctx.report("C11|manufacturers|decoder-error", f"manufacturer {code} ({name}): {type(e).__name__}: {e}", {"manufacturers": code})
                continue
            ctx.count()
            n += 1
            case = {"manufacturers": code}
            if c is not None and (c.source_iso_name is None or c.source_iso_name.manufacturer_code != name):
                ctx.report("C11|manufacturers|identity", f"claim with manufacturer code {code}: identity says {getattr(c.source_iso_name, 'manufacturer_code', None)!r}, "
                           f"the database says {name!r}", case)
            if (r is not None) != expect:
                ctx.report(f"C11|manufacturers|{'leak' if r is not None else 'withheld'}-{mode}", f"device of manufacturer {code} ({name}) with {mode} list {lst}: its data was "
                           f"{'returned' if r is not None else 'withheld'}", case)
    ctx.nontrivial_extra += n
    ctx.klass("manufacturer_table_cases", n)


def _reclaims(ctx: Ctx, item=None):
    """One address re-claimed hundreds of times by devices of alternating manufacturers (every NAME new, nothing of the earlier results
    kept alive by the caller): after each claim the data of that address is gated by the manufacturer of the LATEST claim."""
    from nmea2000.decoder import NMEA2000Decoder
    import gc
    data = {"kind": "single", "pgn": 127250, "src": 9, "dest": 255, "data": bytes([7, 0x10, 0x27, 0, 0, 0, 0, 0xFD])}
    n = 0
    for kw, allowed in (({"exclude_manufacturer_code": ["Garmin"], "exclude_pgns": [60928]}, {137: True, 229: False, 1855: True}),
                        ({"include_manufacturer_code": ["Maretron"], "exclude_pgns": ["isoAddressClaim"]}, {137: True, 229: False, 1855: False}),
                        ({"exclude_manufacturer_code": ["Garmin"]}, {137: True, 229: False, 1855: True})):
        dec = NMEA2000Decoder(**kw)
        wrong = []
        for i in range(600):
            mfg = (137, 229, 1855, 229, 137, 1855, 229)[i % 7]
            nm = traffic.iso_name(1000 + i, mfg, inst_lo=i % 8, func=(130, 140, 150)[i % 3])
            try:
                traffic.feed(dec, {"kind": "claim", "pgn": 60928, "src": 9, "dest": 255, "data": nm.to_bytes(8, "little")})
            except Exception:
                pass
            if i % 5 == 0:
                gc.collect()
            try:
                r = traffic.feed(dec, data)
            except Exception as e:
                ctx.report("C11|reclaims|decoder-error", f"{type(e).__name__}: {e}", {"reclaims": True})
                break
            n += 1
            if (r is not None) != allowed[mfg]:
                wrong.append((i, mfg, r is not None))
            elif r is not None and (r.source_iso_name is None or r.source_iso_name.name != nm):
                wrong.append((i, mfg, "identity"))
            del r
        ctx.count(600)
        if wrong:
            i, mfg, what = wrong[0]
            kind = "identity-stale" if what == "identity" else ("leak-manufacturer" if what else "permitted-withheld")
            ctx.report(f"C11|reclaims|{kind}", f"decoder {kw}: after re-claim number {i + 1} of address 9 (manufacturer code {mfg}) its data was "
                       f"{'returned' if what is True else 'withheld' if what is False else 'returned with a stale identity'} ({len(wrong)} of 600 wrong)", {"reclaims": True})
    ctx.nontrivial_extra += n
    ctx.klass("reclaimed_address_rounds", n)


def _clients(ctx: Ctx, item=None):
    """Claims, manufacturer filters and network mapping through each gateway client, with the link dropped and re-established in the
    middle: the client's decoder (and what it has learnt from claims) lives as long as the client."""
    from .. import clientopts as co
    msgs = (co.standard_traffic(co.KEYED[:3] + co.CONVERTIBLE[:3], sources=(1, 2, 3), mfgs=(137, 1855, 229))
            + [co.claim(2, 555, 229)] + co.standard_traffic(co.KEYED[:3] + co.CONVERTIBLE[:3], sources=(1, 2, 3), claims=False))
    sets = [("defaults", lambda: {}),
            ("build_network_map=True", lambda: {"build_network_map": True}),
            ("exclude_manufacturer_code=['Garmin']", lambda: {"exclude_manufacturer_code": ["Garmin"]}),
            ("include_manufacturer_code=['Maretron'], build_network_map=True", lambda: {"include_manufacturer_code": ["Maretron"], "build_network_map": True}),
            ("exclude_manufacturer_code=['Maretron', 'Airmar']", lambda: {"exclude_manufacturer_code": ["Maretron", "Airmar"]})]
    co.run(ctx, "C11", sets, msgs, reconnects=((), (6,), (4, 12)))

def run(ctx: Ctx):
    pmap(ctx, _clients, [None])
    pmap(ctx, _reclaims, [None])
    pmap(ctx, _manufacturers, [None])
    import os
    if not os.environ.get("VF_SUBPASS"):
        # two sweeps of a 2^20-frame period fit in 2.2 million frames
        pmap(ctx, _deep, [(2_200_000 if ctx.quick else 4_400_000, "exclude"), (2_200_000 if ctx.quick else 4_400_000, "include")])
    n = 120 if ctx.quick else 6000
    pmap(ctx, _work, [(n,)] * 16)


def replay(ctx: Ctx, case):
    if "manufacturers" in case:
        from ..common import Ctx as _C
        sub = _C(ctx.pid)
        sub.known_open = {}
        _manufacturers(sub)
        return [(b, v["what"], v["case"]) for b, v in sub.found.items() if v["case"]["manufacturers"] == case["manufacturers"]]
    if case.get("reclaims"):
        from ..common import Ctx as _C
        sub = _C(ctx.pid)
        sub.known_open = {}
        _reclaims(sub)
        return [(b, v["what"], v["case"]) for b, v in sub.found.items()]
    if case.get("deep"):
        from ..common import Ctx as _C
        sub = _C(ctx.pid)
        sub.known_open = {}
        _deep(sub, (case["deep"], case["mode"]))
        return [(b, v["what"], v["case"]) for b, v in sub.found.items()]
    if case.get("clientopts"):
        from .. import clientopts as co
        return co.replay("C11", _clients, case)
    items = [traffic.item_from_json(i) for i in case["items"]]
    res, _ = run_case(case["config"], None, items, case["offsets"])
    return res
