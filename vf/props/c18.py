"""C18 - preferred-unit conversion rewrites only value and unit of matching quantities."""
from __future__ import annotations

import math
from fractions import Fraction

from hypothesis import strategies as st

from .. import canboat, gen
from ..common import Ctx, pmap

LEVEL = "exploration"
LEVEL_TEXT = ("Differential testing of a decoder with unit preferences against one without on the same input, for every definition that has "
              "a field with a physical quantity (all 571 such fields are visited, each convertible one at its range ends, zero, absent and "
              "random values) and generated preference maps (recognised units in any letter case, unrecognised units, quantities without "
              "conversions). Converted values are compared with the exact conversion from the field's database unit.")
TECHNIQUE = "differential testing with/without preferences + exact-conversion oracle over a systematic field sweep and Hypothesis maps"
RULE = ("definitions with physical-quantity fields x accepted payloads (systematic boundary sweep of convertible fields + random) x preference "
        "maps over {TEMPERATURE, PRESSURE, ANGLE, SPEED} and non-convertible quantities, pre-combined and frame-wise delivery, sibling definitions in sequence on one decoder, the same value in different fields of one quantity in one process; oracle: all attributes equal except value (within "
        "half the library's rounding step of the exact conversion) and unit label (== request ignoring case) of fields whose quantity has a "
        "recognised preference; raw and absent values untouched; non-trivial = message with >= 1 converted and >= 1 unconverted field, or an "
        "unrecognised preference; distinct = (definition, payload, preferences)")
ASSUMPTIONS = [
    "recognised preferences: TEMPERATURE c/f, PRESSURE bar/psi, ANGLE deg, SPEED kts (case-insensitive); rounding as the library documents: "
    "Celsius 2 decimals, Fahrenheit / degrees 0 decimals, knots 1 decimal, bar and psi unrounded (psi compared with relative 1e-5)",
    "the exact conversion starts from the field's database unit (K, Pa, rad, m/s; a field whose database unit is already the requested "
    "one keeps its value)",
]

RECOGNISED = {"TEMPERATURE": {"c": "C", "f": "F"}, "PRESSURE": {"bar": "Bar", "psi": "PSI"}, "ANGLE": {"deg": "Deg"}, "SPEED": {"kts": "kts"}}


def expected(pq, pref, db_unit, v):
    """-> (exact value as float, absolute tolerance, label)"""
    p = pref.lower()
    x = Fraction(v)
    if pq == "TEMPERATURE":
        if p == "c":
            return float(x - Fraction("273.15")), 0.005, "C"
        return float((x - Fraction("273.15")) * Fraction(9, 5) + 32), 0.5, "F"
    if pq == "PRESSURE":
        if p == "bar":
            return float(x / 100000), abs(float(x / 100000)) * 1e-12 + 1e-15, "Bar"
        e = float(x / Fraction("6894.757293168"))
        return e, abs(e) * 1e-5 + 1e-12, "PSI"
    if pq == "ANGLE":
        if db_unit == "deg":
            return float(x), 0.5, "Deg"
        return math.degrees(float(x)), 0.5, "Deg"
    if pq == "SPEED":
        return float(x * 3600 / 1852), 0.05, "kts"
    raise AssertionError(pq)


def field_attrs(f):
    return (f.id, f.name, f.description, f.unit_of_measurement, repr(f.value), repr(f.raw_value), f.physical_quantities, f.type, f.part_of_primary_key)


class Checker:
    def __init__(self, ctx):
        from nmea2000.consts import PhysicalQuantities
        from nmea2000.decoder import NMEA2000Decoder
        self.ctx = ctx
        self.PQ = PhysicalQuantities
        self.Dec = NMEA2000Decoder
        self.base = NMEA2000Decoder()
        self.cache = {}
        self.seqs = {}

    def decoder(self, prefs):
        k = tuple(sorted(prefs.items()))
        if k not in self.cache:
            if len(self.cache) > 200:
                self.cache.clear()
                self.seqs.clear()
            mine = {getattr(self.PQ, q): u for q, u in prefs.items()}
            self.cache[k] = self.Dec(preferred_units=mine)
            # the dict is the caller's: it is re-used for something else afterwards
            for q in list(mine):
                mine[q] = "k" if mine[q].lower() != "k" else "rankine"
            mine[self.PQ.TEMPERATURE] = "f" if prefs.get("TEMPERATURE", "").lower() != "f" else "c"
            mine.pop(self.PQ.ANGLE, None)
        return self.cache[k]

    def _deliver(self, dec, d, payload, nbytes, via, seq):
        if via == "combined":
            return dec.decode_basic_string(gen.basic_string(d.pgn, payload, nbytes), already_combined=True)
        # frame by frame through the EByte entry point (fast-packet reassembly path)
        from .. import wire
        i = wire.ident(d.pgn, 1, 255, 3)
        r = None
        for fr in wire.segment(payload.to_bytes(nbytes, "little")[:223], seq):
            r = dec.decode_tcp(wire.ebyte(i, fr))
        return r

    def check(self, d, payload, nbytes, prefs, via="combined"):
        ctx = self.ctx
        case = {"definition": d.key, "payload_hex": payload.to_bytes(nbytes, "little").hex(), "preferences": prefs, "via": via}
        self.seq = (getattr(self, "seq", 0) + 1) % 8
        # a per-decoder sequence counter that always differs from the previous message fed to that decoder
        base, withp = self.base, self.decoder(prefs)
        sa = self.seqs[id(base)] = (self.seqs.get(id(base), 0) + 1) % 8
        sb = self.seqs[id(withp)] = (self.seqs.get(id(withp), 0) + 1) % 8
        try:
            a = self._deliver(base, d, payload, nbytes, via, sa)
        except Exception:
            a = None
        try:
            b = self._deliver(withp, d, payload, nbytes, via, sb)
            berr = None
        except Exception as e:
            b, berr = None, e
        if a is None:
            ctx.klass("rejected")
            if b is not None:
                return [("C18|message-from-nothing", "decoder with preferences returns a message, decoder without does not", case)], False
            return [], False
        if b is None:
            return [("C18|message-lost", f"decoder with preferences returns nothing ({berr}), decoder without returns {a.id}", case)], False
        out = []
        if (a.PGN, a.id, a.description, a.source, a.destination, a.priority, a.ttl, a.hash, len(a.fields)) != \
                (b.PGN, b.id, b.description, b.source, b.destination, b.priority, b.ttl, b.hash, len(b.fields)):
            out.append(("C18|header-changed", "message attributes differ between decoders with and without preferences", case))
        target = canboat.db().select(d.pgn, payload) or d
        converted = unconverted = 0
        unrec = any(q not in RECOGNISED or u.lower() not in RECOGNISED[q] for q, u in prefs.items())
        for fdef, fa, fb in zip(target.fields, a.fields, b.fields):
            pq = fdef.pq
            pref = prefs.get(pq) if pq else None
            if pref is not None and pq in RECOGNISED and pref.lower() in RECOGNISED[pq]:
                converted += 1
                # everything but value and unit untouched
                xa, xb = field_attrs(fa), field_attrs(fb)
                if xa[:3] + xa[5:] != xb[:3] + xb[5:]:
                    what = "raw_value" if xa[5] != xb[5] else "metadata"
                    out.append((f"C18|{what}-changed|{pq}|{pref.lower()}", f"{fdef.id}: {what} changed by unit conversion: {xa} -> {xb}", case))
                label = RECOGNISED[pq][pref.lower()]
                if (fb.unit_of_measurement or "").lower() != pref.lower():
                    out.append((f"C18|label|{pq}|{pref.lower()}", f"{fdef.id}: unit label {fb.unit_of_measurement!r}, requested {pref!r}", case))
                if fa.value is None:
                    if fb.value is not None:
                        out.append((f"C18|absent-converted|{pq}|{pref.lower()}", f"{fdef.id}: absent value became {fb.value!r}", case))
                    continue
                if not isinstance(fa.value, (int, float)) or fa.value != fa.value:
                    continue
                exp, tol, _ = expected(pq, pref, fdef.unit, fa.value)
                if fb.value is None or abs(fb.value - exp) > tol * (1 + 1e-9) + 1e-9:
                    out.append((f"C18|conversion|{pq}|{pref.lower()}|{fdef.unit}", f"{fdef.id}: {fa.value!r} {fdef.unit} -> {fb.value!r} {fb.unit_of_measurement}, exact {exp!r} (tolerance {tol})", case))
            else:
                unconverted += 1
                if field_attrs(fa) != field_attrs(fb):
                    out.append((f"C18|unrelated-field-changed|{pq}|{'/'.join(sorted(prefs))}", f"{fdef.id} (quantity {pq}) changed: {field_attrs(fa)} -> {field_attrs(fb)}", case))
        if converted:
            ctx.klass("converted_fields", converted)
        return out, (converted and unconverted) or unrec


PREFS = {
    "TEMPERATURE": ["c", "C", "f", "F", "kelvin", "K"],
    "PRESSURE": ["bar", "Bar", "BAR", "psi", "PSI", "Psi", "mbar", "pa"],
    "ANGLE": ["deg", "Deg", "DEG", "rad", "grad"],
    "SPEED": ["kts", "KTS", "Kts", "mph", "m/s"],
    "LENGTH": ["ft", "m"], "ANGULAR_VELOCITY": ["deg", "deg/s"], "DISTANCE": ["nm"], "PRESSURE_RATE": ["bar", "psi"], "VOLUME": ["gal"],
}

prefs_st = st.dictionaries(st.sampled_from(sorted(PREFS)), st.nothing(), max_size=0).flatmap(
    lambda _: st.lists(st.sampled_from(sorted(PREFS)), min_size=0, max_size=4, unique=True).flatmap(
        lambda qs: st.tuples(*[st.sampled_from(PREFS[q]) for q in qs]).map(lambda us, qs=qs: dict(zip(qs, us)))))

FULL = [{"TEMPERATURE": "C", "PRESSURE": "bar", "ANGLE": "deg", "SPEED": "kts"}, {"TEMPERATURE": "f", "PRESSURE": "PSI", "ANGLE": "DEG", "SPEED": "KTS"}]


def _work(ctx: Ctx, item):
    keys, n = item
    db = canboat.db()
    ck = Checker(ctx)
    for key in keys:
        d = db.by_key[key]

        def one(p, prefs, d=d):
            payload, nbytes, classes = p
            ctx.count()
            res, nontrivial = ck.check(d, payload, nbytes, prefs)
            if nontrivial:
                ctx.nt((d.key, payload, tuple(sorted(prefs.items()))))
            if d.fast and nbytes <= 223:
                ctx.count()
                ctx.klass("frame_wise_delivery")
                res2, _ = ck.check(d, payload, nbytes, prefs, via="frames")
                res += [(b + "|frames", w, c) for b, w, c in res2 if not any(b == b0 for b0, _, _ in res)]
            return res

        ctx.notes.setdefault("quantity_fields_visited", set()).update((d.key, f.id) for f in d.fields if f.pq)
        # systematic: each convertible field at each in-range class, others benign, both full preference maps
        bp, bn, _ = gen.benign_payload(d)
        if d.fixed_layout:
            for f in d.fields:
                if f.pq in RECOGNISED and f.match is None:
                    for cname, spec in gen.field_classes(d, f).items():
                        if cname in gen.IN_CLASSES and isinstance(spec, int):
                            m = ((1 << f.bits) - 1) << f.offset_bits
                            for prefs in FULL:
                                for b, w, c in one(((bp & ~m) | (spec << f.offset_bits), bn, [cname]), prefs):
                                    ctx.report(b, w, c)
        ctx.hyp(one, gen.payloads(d, mode="accepted", extra_bytes=False), prefs_st, max_examples=n, name="prefs")
        if d.index % 50 == 0:
            ctx.sample({"definition": key, "quantity_fields": [(f.id, f.pq, f.unit) for f in d.fields if f.pq][:6]})


def _siblings(ctx: Ctx, item):
    """One decoder (with preferences) sees a sibling definition of the same PGN first: every ordered pair of definitions of every
    multi-definition PGN in which the second has a convertible field."""
    pgns, = item
    db = canboat.db()
    for pgn in pgns:
        ds = [d for d in db.by_pgn[pgn] if d.supported]
        for d2 in ds:
            if not any(f.pq in RECOGNISED for f in d2.fields):
                continue
            for d1 in ds:
                if d1 is d2:
                    continue
                for prefs in FULL:
                    ck = Checker(ctx)          # fresh decoders per pair: the only history is d1
                    p1, n1, _ = gen.benign_payload(d1)
                    ck.check(d1, p1, n1, prefs)
                    if d1.fast:
                        ck.check(d1, p1, n1, prefs, via="frames")
                    p2, n2, _ = gen.benign_payload(d2)
                    for via in (("combined", "frames") if d2.fast and n2 <= 223 else ("combined",)):
                        ctx.count()
                        ctx.nt((d1.key, d2.key, via, tuple(sorted(prefs.items()))))
                        res, _ = ck.check(d2, p2, n2, prefs, via=via)
                        for b, w, c in res:
                            ctx.report(b + "|after-sibling", f"after decoding {d1.key}: {w}", dict(c, first=d1.key))
    ctx.klass("sibling_pairs")


def _shared_values(ctx: Ctx, item):
    """The same numeric value in different fields of one quantity, decoded in one process (fields whose database unit differs, e.g.
    the ANGLE fields stored in degrees, included): a conversion must depend on the field, not on what was converted before."""
    quantity, = item
    db = canboat.db()
    fields = [(d, f) for d in db.defs if d.supported and d.fixed_layout for f in d.fields if f.pq == quantity and f.match is None and f.type == "NUMBER"]
    # unusual units first, then the rest, then the reverse
    fields.sort(key=lambda df: (df[1].unit in ("rad", "K", "Pa", "m/s"), df[0].index))
    ck = Checker(ctx)
    for values in ([Fraction(1, 2), Fraction(3, 2), Fraction(5, 2), Fraction(3), Fraction(280), Fraction(1, 10), Fraction(100000)],):
        for order in (fields, list(reversed(fields))):
            for v in values:
                for d, f in order:
                    off = f.offset or 0
                    r = (v - off) / f.res
                    b = gen.raw_bounds(f)
                    if r.denominator != 1 or not b or not (b[0] <= r <= b[1]):
                        continue
                    bp, bn, _ = gen.benign_payload(d)
                    m = ((1 << f.bits) - 1) << f.offset_bits
                    payload = (bp & ~m) | ((int(r) & ((1 << f.bits) - 1)) << f.offset_bits)
                    for prefs in FULL[:1]:
                        ctx.count()
                        ctx.nt((quantity, d.key, f.id, str(v)))
                        res, _ = ck.check(d, payload, bn, prefs)
                        for bk, w, c in res:
                            ctx.report(bk + "|shared-value", w, c)
    ctx.klass("shared_value_fields", len(fields))


def _clients(ctx: Ctx, item=None):
    """Unit preferences handed to each gateway client, in the spellings the decoder accepts: the client delivers what a bare decoder with
    the same preferences returns."""
    from nmea2000.consts import PhysicalQuantities as PQ
    from .. import clientopts as co
    msgs = co.standard_traffic(co.CONVERTIBLE + co.FAST[:2], claims=False)
    sets = []
    for label, prefs in (("C/deg/kts/bar", {"TEMPERATURE": "C", "ANGLE": "deg", "SPEED": "kts", "PRESSURE": "bar"}),
                         ("c/DEG/KTS/BAR", {"TEMPERATURE": "c", "ANGLE": "DEG", "SPEED": "KTS", "PRESSURE": "BAR"}),
                         ("F/Deg/Kts/psi", {"TEMPERATURE": "F", "ANGLE": "Deg", "SPEED": "Kts", "PRESSURE": "psi"}),
                         ("f/PSI", {"TEMPERATURE": "f", "PRESSURE": "PSI"}),
                         ("unrecognised", {"TEMPERATURE": "rankine", "ANGLE": "grad"}),
                         ("none", {})):
        sets.append(("preferred_units " + label, lambda prefs=prefs: {"preferred_units": {getattr(PQ, q): u for q, u in prefs.items()}}))
    co.run(ctx, "C18", sets, msgs)

def run(ctx: Ctx):
    pmap(ctx, _clients, [None])
    db = canboat.db()
    pmap(ctx, _shared_values, [(q,) for q in RECOGNISED])
    multi = [pgn for pgn, ds in db.by_pgn.items() if len(ds) > 1 and any(f.pq in RECOGNISED for d in ds for f in d.fields)]
    pmap(ctx, _siblings, [([p],) for p in multi])
    keys = [d.key for d in db.defs if d.supported and any(f.pq for f in d.fields)]
    n = 40 if ctx.quick else 800
    shards = [keys[i::32] for i in range(32)]
    pmap(ctx, _work, [(s, n) for s in shards if s])
    ctx.notes["definitions_with_quantity_fields"] = len(keys)
    ctx.notes["quantity_fields_total"] = sum(1 for d in db.defs for f in d.fields if f.pq)
    ctx.notes["quantity_fields_visited"] = len(ctx.notes.get("quantity_fields_visited", ()))


def replay(ctx: Ctx, case):
    if case.get("clientopts"):
        from .. import clientopts as co
        return co.replay("C18", _clients, case)
    ck = Checker(ctx)
    d = canboat.db().by_key[case["definition"]]
    data = bytes.fromhex(case["payload_hex"])
    if case.get("first"):
        d1 = canboat.db().by_key[case["first"]]
        p1, n1, _ = gen.benign_payload(d1)
        ck.check(d1, p1, n1, case["preferences"])
        if d1.fast:
            ck.check(d1, p1, n1, case["preferences"], via="frames")
    res, _ = ck.check(d, int.from_bytes(data, "little"), len(data), case["preferences"], case.get("via", "combined"))
    if case.get("first"):
        res = [(b + "|after-sibling", w, c) for b, w, c in res]
    return [(b + "|frames", w, c) for b, w, c in res] if case.get("via") == "frames" and not case.get("first") else res
