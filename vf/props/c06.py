"""C06 - every gateway wire format round-trips and obeys its fixed framing."""
from __future__ import annotations

from hypothesis import strategies as st

from .. import canboat, gen, wire
from ..common import Ctx, chunks, pmap

LEVEL = "exploration"
LEVEL_TEXT = ("Every encodable definition with generated in-range values and addressing is encoded in the four gateway formats; the packets "
              "are checked against the fixed framing (13 / 20 bytes + checksum / one CR LF line), decoded by the matching decoder and "
              "compared field by field, concatenations are cut by a reference splitter and by the matching client receive path running on "
              "an in-memory transport, and for sampled USB packets all 18 x 255 single-byte corruptions are tried. Sampled over values.")
TECHNIQUE = "property-based round trip per wire format + framing predicates + exhaustive single-byte corruption of sampled USB packets"
RULE = ("encodable definitions x accepted payloads (decoded to field values) x source/destination/priority x {ebyte, usb, yacht devices, "
        "actisense}; oracle: framing predicate per packet, decode(encode(m)) == m on PGN/id/addressing/fields, stream of several messages "
        "re-split into the same packets; all 18 x 255 corruptions of bytes 2..19 of sampled USB packets must yield no message; "
        "non-trivial = payload or last frame shorter than 8 bytes, or a corrupted packet; distinct = (definition, payload, addressing, format)")
ASSUMPTIONS = [
    "field values come from decoding an in-range payload, so they lie on the resolution grid",
    "Actisense lines are given a generated 'A<sec>.<ms>' timestamp token, as the format prepends one",
    "client receive paths are exercised on an in-memory transport under asyncio's real stream layer (vf/aio.py)",
]

FORMATS = ("ebyte", "usb", "yd", "actisense")


def fields_tuple(m):
    return [(f.id, f.value, f.raw_value) for f in m.fields]


def encode(enc, fmt, m):
    if fmt == "ebyte":
        return enc.encode_ebyte(m)
    if fmt == "usb":
        return enc.encode_usb(m)
    if fmt == "yd":
        return enc.encode_yacht_devices(m)
    return [enc.encode_actisense(m)]


def framing(fmt, pk):
    """-> list of (aspect, text) framing violations of one packet."""
    out = []
    if fmt == "ebyte":
        if len(pk) != 13:
            out.append(("ebyte-size", f"EByte packet has {len(pk)} bytes, not 13: {pk.hex()}"))
    elif fmt == "usb":
        if len(pk) != 20:
            out.append(("usb-size", f"USB packet has {len(pk)} bytes: {pk.hex()}"))
        else:
            if pk[:2] != b"\xaa\x55":
                out.append(("usb-header", f"USB packet starts {pk[:2].hex()}"))
            if sum(pk[2:19]) & 0xFF != pk[19]:
                out.append(("usb-checksum", f"USB packet checksum {pk[19]:#x} != {sum(pk[2:19]) & 0xFF:#x}"))
    elif fmt == "yd":
        if not pk.endswith(b"\r\n") or b"\r" in pk[:-2] or b"\n" in pk[:-2]:
            out.append(("yd-line", f"Yacht Devices packet is not exactly one CR LF terminated line: {pk!r}"))
    return out


def decode_packets(fmt, pks, ts, dec=None):
    from nmea2000.decoder import NMEA2000Decoder
    dec = dec or NMEA2000Decoder()
    res = None
    for p in pks:
        if fmt in ("ebyte", "usb"):
            # the receiver reads every packet into a buffer it owns and overwrites afterwards
            buf = bytearray(p)
            try:
                res = dec.decode_tcp(buf) if fmt == "ebyte" else dec.decode_usb(memoryview(buf) if len(p) % 2 == 0 and len(pks) % 2 else buf)
            finally:
                buf[:] = b"\xee" * len(buf)
        elif fmt == "yd":
            res = dec.decode_yacht_devices_string("%s R %s" % (ts[1], p.decode().strip()))
        else:
            res = dec.decode_actisense_string("%s %s" % (ts[0], p))
    return res


class Checker:
    def __init__(self, ctx):
        from nmea2000.decoder import NMEA2000Decoder
        from nmea2000.encoder import NMEA2000Encoder
        self.ctx = ctx
        self.dec = NMEA2000Decoder()
        self.rx = NMEA2000Decoder()         # a receiving decoder that lives as long as the shard (every sender here starts a new encoder)
        self.Enc = NMEA2000Encoder

    def message(self, d, payload, nbytes, src, dest, prio):
        try:
            m = self.dec.decode_basic_string(gen.basic_string(d.pgn, payload, nbytes, src=src, dest=dest, prio=prio), already_combined=True)
        except Exception:
            return None
        if m is None or m.id != d.id:
            return None
        return m

    def check(self, d, payload, nbytes, src, dest, prio, fmt, ts):
        ctx = self.ctx
        pdu1 = ((d.pgn >> 8) & 0xFF) < 240
        if not pdu1:
            dest = 255
        m = self.message(d, payload, nbytes, src, dest, prio)
        if m is None:
            ctx.klass("rejected")
            return []
        case = {"definition": d.key, "payload_hex": payload.to_bytes(nbytes, "little").hex(), "source": src, "destination": dest,
                "priority": prio, "format": fmt, "timestamps": list(ts)}
        try:
            pks = encode(self.Enc(), fmt, m)
        except ValueError as e:
            ctx.klass("encode_refused")
            return []
        out = []
        short = False
        for pk in pks:
            for aspect, text in (framing(fmt, pk) if fmt != "actisense" else []):
                out.append((f"C06|framing|{aspect}", text, case))
            if fmt == "ebyte" and (pk[0] & 0x0F) < 8:
                short = True
            if fmt == "usb" and len(pk) == 20 and pk[9] < 8:
                short = True
            if fmt == "yd" and len(pk.split()) < 9:
                short = True
        if fmt == "actisense":
            short = len(pks[0].split(" ")[2]) < 16 if len(pks[0].split(" ")) > 2 else True
        if short:
            ctx.nt((d.key, payload, src, dest, prio, fmt))
            ctx.klass("short_payload_or_last_frame")
        ctx.klass("fmt:" + fmt)
        try:
            back = decode_packets(fmt, pks, ts)
        except Exception as e:
            out.append((f"C06|roundtrip-error|{fmt}|{type(e).__name__}", f"decoder rejects the encoder's own packets: {type(e).__name__}: {e}", case))
            return out
        if back is None:
            out.append((f"C06|roundtrip-none|{fmt}", "decoder returns nothing for the encoder's own packets", case))
            return out
        a = (back.PGN, back.id, back.source, back.destination, back.priority)
        b = (m.PGN, m.id, m.source, m.destination, m.priority)
        if a != b:
            out.append((f"C06|roundtrip-addressing|{fmt}", f"decoded {a} != encoded {b}", case))
        if fields_tuple(back) != fields_tuple(m):
            diff = [x[0] for x, y in zip(fields_tuple(back), fields_tuple(m)) if x != y]
            out.append((f"C06|roundtrip-fields|{fmt}", f"fields differ after {fmt} round trip: {diff}", case))
        # the application replaces a field OBJECT of the message it holds (msg.fields[i] = NMEA2000Field(...)) and sends it again
        if not out:
            from nmea2000.message import NMEA2000Field, NMEA2000Message
            alt = gen.benign_message(d)
            if alt is not None and len(alt.fields) == len(m.fields):
                idx = [i for i, (a_, b_) in enumerate(zip(m.fields, alt.fields)) if (a_.value, a_.raw_value) != (b_.value, b_.raw_value)]
                if idx:
                    try:
                        encode(self.Enc(), fmt, m)           # (the message has been sent once: whatever the library remembers about it exists now)
                        i = idx[len(idx) // 2]
                        f_alt = alt.fields[i]
                        m.fields[i] = NMEA2000Field(id=f_alt.id, name=f_alt.name, value=f_alt.value, raw_value=f_alt.raw_value)
                        again = encode(self.Enc(), fmt, m)
                        fresh = encode(self.Enc(), fmt, NMEA2000Message(PGN=m.PGN, id=m.id, source=m.source, destination=m.destination, priority=m.priority,
                                                                        fields=[NMEA2000Field(id=x.id, name=x.name, value=x.value, raw_value=x.raw_value) for x in m.fields]))
                    except ValueError:
                        again = fresh = None
                    if again is not None:
                        ctx.klass("field_object_replaced")
                        if again != fresh:
                            out.append((f"C06|field-object-replaced|{fmt}", f"field {m.fields[i].id} replaced by a new field object and the message sent again: packets differ from "
                                        f"those of a new message with the same content", dict(case, field_replaced=True)))
        # the same packets into a decoder that has received many messages before (from senders that each started a new encoder)
        try:
            back2 = decode_packets(fmt, pks, ts, self.rx)
        except Exception as e:
            back2 = e
        if not out and (back2 is None or isinstance(back2, Exception) or fields_tuple(back2) != fields_tuple(back)
                        or (back2.PGN, back2.id, back2.source, back2.destination, back2.priority) != a):
            out.append((f"C06|roundtrip-used-decoder|{fmt}", f"a fresh decoder returns the message, a decoder that has received earlier messages returns "
                        f"{'nothing' if back2 is None else type(back2).__name__ if isinstance(back2, Exception) else 'a different message'}", dict(case, used_decoder=True)))
        return out


def corruptions(ctx, pk, case):
    """All 18 x 255 single-byte corruptions of bytes 2..19 of a valid USB packet must yield no message."""
    from nmea2000.decoder import NMEA2000Decoder
    out = []
    for pos in range(2, 20):
        for x in range(1, 256):
            bad = bytearray(pk)
            bad[pos] ^= x
            dec = NMEA2000Decoder()
            try:
                r = dec.decode_usb(bytes(bad))
            except Exception:
                r = None
            ctx.count()
            if r is not None:
                out.append((f"C06|corruption-accepted|pos{pos}", f"byte {pos} xor {x:#x} still decodes: {bytes(bad).hex()}", dict(case, corrupt=[pos, x])))
                break
    ctx.nontrivial_extra += 18 * 255
    ctx.klass("usb_corruptions", 18 * 255)
    return out


def _work(ctx: Ctx, item):
    from nmea2000.encoder import NMEA2000Encoder
    keys, n, n_corrupt = item
    db = canboat.db()
    ck = Checker(ctx)
    done_corrupt = 0
    for key in keys:
        d = db.by_key[key]

        def one(p, src, dest, prio, fmt, sec, ms, d=d):
            payload, nbytes, classes = p
            ctx.count()
            ts = ("A%06d.%03d" % (sec, ms), "%02d:%02d:%02d.%03d" % (sec // 3600 % 24, sec // 60 % 60, sec % 60, ms))
            return ck.check(d, payload, nbytes, src, dest, prio, fmt, ts)

        ctx.hyp(one, gen.payloads(d, mode="accepted", extra_bytes=False), st.integers(0, 255), st.one_of(st.just(255), st.integers(0, 255)),
                st.integers(0, 7), st.sampled_from(FORMATS), st.integers(0, 999999), st.integers(0, 999), max_examples=n, name="roundtrip")
        # messages the APPLICATION builds (legal values chosen field by field, not obtained from the decoder): what the encoder makes of
        # them must come back through the decoder of the same format, values within half a resolution step
        from . import c09
        from fractions import Fraction

        def built(asg, fmt, d=d):
            fields, removed, change, alt = asg
            if removed is not None or any(a["expect"][0] in ("reject", "either") or a.get("outside_db") for a in fields):
                return []
            ctx.count()
            m = c09.build_message(d, fields)
            case = {"definition": d.key, "built": [[repr(a["value"]), repr(a["raw_value"])] for a in fields], "format": fmt}
            try:
                pks = encode(ck.Enc(), fmt, m)
            except ValueError:
                ctx.klass("built_encode_refused")
                return []
            payload = None
            try:
                text = ck.Enc().encode_actisense(m)
                parts = text.split(" ")
                payload = int.from_bytes(bytes.fromhex(parts[2]), "little") if len(parts) > 2 else 0
            except Exception:
                pass
            if payload is not None and canboat.db().select(d.pgn, payload) is not d:
                return []                      # non-match fields happen to carry a sibling's match values
            ctx.klass("built_messages")
            ctx.nt((d.key, "built", repr(case["built"]), fmt))
            try:
                back = decode_packets(fmt, pks, ("A000001.000", "00:00:01.000"))
            except Exception as e:
                if not d.supported:
                    return []
                return [(f"C06|built-roundtrip-error|{fmt}|{type(e).__name__}", f"the decoder rejects what the encoder made of a message of legal values: {type(e).__name__}: {e}", case)]
            if back is None or back.id != d.id:
                return [(f"C06|built-roundtrip-none|{fmt}", f"a message of legal values came back as {'nothing' if back is None else back.id}", case)]
            out = []
            for f, a, g in zip(d.fields, fields, back.fields):
                if a["expect"][0] == "raw" and f.type == "LOOKUP" and g.raw_value != a["expect"][1]:
                    out.append((f"C06|built-lookup|{fmt}|{d.key}/{f.id}", f"{f.id}: sent {a['value']!r} / {a['raw_value']!r} (code {a['expect'][1]}), received {g.value!r} / {g.raw_value!r}", case))
                if a["expect"][0] == "num" and a.get("target") is not None and f.type in ("NUMBER", "PGN", "DURATION") and not a.get("tol"):
                    if g.value is None or abs(Fraction(g.value) - a["target"]) > f.res / 2 * (1 + Fraction(1, 10 ** 6)) + abs(a["target"]) * Fraction(1, 10 ** 12):
                        out.append((f"C06|built-roundtrip-value|{fmt}|{d.key}/{f.id}", f"{f.id}: sent {float(a['target'])!r}, received {g.value!r}", case))
            return out
        if d.encodable:
            ctx.hyp(built, c09.assignment(d), st.sampled_from(FORMATS), max_examples=max(24, n), name="built", shrink=False, rounds=2)
        # the benign message in every format (deterministic floor)
        bp, bn, _ = gen.benign_payload(d)
        for fmt in FORMATS:
            for b, w, c in one((bp, bn, []), 7, 255, 3, fmt, 57, 55):
                ctx.report(b, w, c)
        if done_corrupt < n_corrupt and not d.fast:
            m = ck.message(d, bp, bn, 9, 255, 6)
            if m is not None:
                try:
                    pk = NMEA2000Encoder().encode_usb(m)[0]
                except ValueError:
                    continue
                if len(pk) == 20:
                    for b, w, c in corruptions(ctx, pk, {"definition": key, "payload_hex": bp.to_bytes(bn, "little").hex(), "packet": pk.hex()}):
                        ctx.report(b, w, c)
                    done_corrupt += 1
        if d.index % 50 == 0:
            ctx.sample({"definition": key, "payload_hex": bp.to_bytes(bn, "little").hex(), "formats": list(FORMATS)})


def _streams(ctx: Ctx, item):
    """Concatenations of packets of several messages are cut back into the same packets (reference splitter and client receive path)."""
    from nmea2000.encoder import NMEA2000Encoder
    keys, n = item
    db = canboat.db()
    ck = Checker(ctx)
    try:
        from .. import aio
    except Exception:
        aio = None

    @st.composite
    def msgs(draw):
        k = draw(st.integers(1, 5))
        out = []
        for _ in range(k):
            d = db.by_key[draw(st.sampled_from(keys))]
            # source 170 -> destination 85 puts AA 55 into the identifier bytes of an addressed PGN (legal inside a packet)
            src, dest = draw(st.one_of(st.tuples(st.integers(0, 253), st.just(255)), st.just((170, 85))))
            out.append((d, draw(gen.payloads(d, mode="accepted", extra_bytes=False)), src, dest))
        return out, draw(st.lists(st.integers(1, 400), max_size=10)), draw(st.sampled_from([0.0, 0.0, 1.5, 30.0]))

    def one(mc, fmt):
        ms, rawcuts, gap = mc
        ctx.count()
        pks = []
        for d, (payload, nbytes, _), src, dest in ms:
            m = ck.message(d, payload, nbytes, src, dest, 3)
            if m is None:
                continue
            try:
                pks += encode(NMEA2000Encoder(), fmt, m)
            except ValueError:
                continue
        if not pks:
            return []
        case = {"format": fmt, "messages": [[d.key, p[0].to_bytes(p[1], "little").hex(), src, dest] for d, p, src, dest in ms], "cuts": rawcuts, "gap": gap}
        ctx.nt(repr(case))
        ctx.klass("stream:" + fmt)
        stream = b"".join(pks)
        out = []
        try:
            cut = wire.split_stream(fmt, stream)
        except AssertionError:
            cut = None
        if cut != pks:
            out.append((f"C06|stream-split|{fmt}", f"{len(pks)} packets concatenated are cut into {None if cut is None else len(cut)} by the {fmt} framing rule", case))
        if aio is not None and not out:
            # the Yacht Devices gateway prefixes received lines with time and direction; framing is unchanged
            cl = [b"00:00:01.000 R " + p for p in pks] if fmt == "yd" else pks
            total = len(b"".join(cl))
            cuts = sorted({c % total for c in rawcuts if c % total}) if total > 1 else []
            got = aio.client_frames(fmt, b"".join(cl), cuts=cuts, gap=gap)
            exp = aio.reference_delivery(fmt, cl)
            ctx.klass("client_path_messages", len(exp))
            if got != exp:
                out.append((f"C06|stream-client|{fmt}", f"client receive path delivered {len(got)} messages {got[:3]}, packets decode one by one to {len(exp)} {exp[:3]}", case))
        return out

    ctx.hyp(one, msgs(), st.sampled_from(["ebyte", "usb", "yd"]), max_examples=n, name="streams")


def _lookup_names(ctx: Ctx, keys):
    """Every lookup field given by each of its names, through every format and back: the same name / code is received."""
    from . import c09
    from nmea2000.encoder import NMEA2000Encoder
    db = canboat.db()
    n = 0
    for key in keys:
        d = db.by_key[key]
        for k, (f, name, code, m) in enumerate(c09.lookup_name_messages(d)):
            fmt = FORMATS[k % len(FORMATS)]
            try:
                pks = encode(NMEA2000Encoder(), fmt, m)
            except ValueError:
                continue
            ctx.count()
            n += 1
            case = {"lookup_name": key, "field": f.id, "name": name, "format": fmt}
            try:
                back = decode_packets(fmt, pks, ("A000001.000", "00:00:01.000"))
            except Exception as e:
                ctx.report(f"C06|lookup-by-name|{fmt}|roundtrip-error", f"{key}.{f.id} = {name!r}: {type(e).__name__}: {e}", case)
                continue
            g = next((x for x in back.fields if x.id == f.id), None) if back is not None and back.id == d.id else None
            if back is not None and back.id != d.id:
                continue                    # the name's code makes the payload another definition's (match values): not this check's business
            if g is None or g.raw_value != code:
                ctx.report(f"C06|lookup-by-name|{fmt}|{key}/{f.id}", f"{f.id} sent as {name!r} (code {code} in table {f.lookup}): received {getattr(g, 'value', None)!r} / "
                           f"{getattr(g, 'raw_value', None)!r}", case)
    ctx.nontrivial_extra += n
    ctx.klass("lookup_fields_by_every_name", n)


def _dual(ctx: Ctx, item):
    from .. import clientopts as co
    co.dual_pass(ctx, "C06", item[0])


def run(ctx: Ctx):
    _enc = [d.key for d in canboat.db().defs if d.encodable]
    pmap(ctx, _lookup_names, [_enc[i::16] for i in range(16)])
    pmap(ctx, _dual, [("waveshare",)])
    db = canboat.db()
    enc = [d.key for d in db.defs if d.encodable]
    n = 12 if ctx.quick else 400
    shards = [enc[i::32] for i in range(32)]
    pmap(ctx, _work, [(s, n, 1 if ctx.quick else 4) for s in shards if s])
    short = [d.key for d in db.defs if d.encodable and (d.fast or d.nbytes() < 8)] + ["59904/isoRequest"] * 6 or enc
    pmap(ctx, _streams, [(short, 15 if ctx.quick else 300)] * 16)
    ctx.notes["encodable_definitions"] = len(enc)


def replay(ctx: Ctx, case):
    if "lookup_name" in case:
        sub = Ctx(ctx.pid)
        sub.known_open = {}
        _lookup_names(sub, [case["lookup_name"]])
        return [(b, v["what"], v["case"]) for b, v in sub.found.items() if v["case"].get("field") == case.get("field") and v["case"].get("name") == case.get("name")]
    if case.get("dual"):
        from .. import clientopts as co
        return co.dual_replay("C06", "C06", case)
    from nmea2000.decoder import NMEA2000Decoder
    db = canboat.db()
    ck = Checker(ctx)
    if "corrupt" in case:
        bad = bytearray(bytes.fromhex(case["packet"]))
        bad[case["corrupt"][0]] ^= case["corrupt"][1]
        try:
            r = NMEA2000Decoder().decode_usb(bytes(bad))
        except Exception:
            r = None
        return [("C06|corruption-accepted|pos%d" % case["corrupt"][0], "corrupted packet still decodes", case)] if r is not None else []
    if "messages" in case:
        holder = {}
        sub = Ctx(ctx.pid)
        sub.known_open = {}

        def fake(check, *a, **k):
            ms = [(db.by_key[m[0]], (int.from_bytes(bytes.fromhex(m[1]), "little"), len(bytes.fromhex(m[1])), []), m[2], m[3] if len(m) > 3 else 255)
                  for m in case["messages"]]
            holder["out"] = check((ms, case.get("cuts", []), case.get("gap", 0.0)), case["format"])
        sub.hyp = fake
        _streams(sub, ([m[0] for m in case["messages"]], 1))
        return holder.get("out", [])
    d = db.by_key[case["definition"]]
    data = bytes.fromhex(case["payload_hex"])
    if case.get("used_decoder"):
        # the receiving decoder has seen the same message (from another sender instance) before
        ck.check(d, int.from_bytes(data, "little"), len(data), case["source"], case["destination"], case["priority"], case["format"],
                 tuple(case.get("timestamps", ("A000001.000", "00:00:01.000"))))
    return ck.check(d, int.from_bytes(data, "little"), len(data), case["source"], case["destination"], case["priority"], case["format"],
                    tuple(case.get("timestamps", ("A000001.000", "00:00:01.000"))))
