"""C17 - identity hash depends exactly on message kind and primary-key fields."""
from __future__ import annotations

import json
import os
import subprocess
import sys

from hypothesis import strategies as st

from .. import canboat, gen, traffic
from ..common import REPO, VERIF, Ctx, pmap

LEVEL = "exploration"
LEVEL_TEXT = ("For every decodable definition, families of payloads that agree / differ on primary-key fields and on non-key fields are decoded "
              "from different sources, priorities, destinations, unit preferences and decoder instances with network mapping on; over ALL "
              "messages of a shard the relation hash <-> (definition id, raw values of the database's primary-key fields) must be a "
              "bijection; with mapping off no hash may be set; a sample is recomputed in a subprocess with another PYTHONHASHSEED.")
TECHNIQUE = "metamorphic / relational property over generated payload families (hash <-> key bijection) + cross-process differential"
RULE = ("all decodable definitions (with and without primary-key fields) x base payload + variants {non-key fields re-drawn, one key field "
        "re-drawn, string key with one character appended, other source / priority / destination / unit preferences / decoder instance}, plus all definitions of each multi-definition PGN back to back on the same decoders; oracle: bijection hash <-> (id, key raw "
        "values) over the whole run, hash present iff network map on, subprocess agreement; non-trivial = pair differing in exactly one key "
        "field or only in non-key fields; distinct = (definition, payload pair)")
ASSUMPTIONS = [
    "primary-key fields are taken from canboat.json (PartOfPrimaryKey), their raw values from the returned message",
    "MD5 collisions are out of reach",
    "the library joins key parts with '_'; ambiguity of that join for string-valued key fields is not specifically probed",
]


class Runner:
    def __init__(self, ctx):
        from nmea2000.consts import PhysicalQuantities as PQ
        from nmea2000.decoder import NMEA2000Decoder
        self.ctx = ctx
        self.decs = []
        claimers = [(1, traffic.iso_name(11, 1855)), (2, traffic.iso_name(22, 137)), (3, traffic.iso_name(33, 229))]
        for units in ({}, {PQ.TEMPERATURE: "C", PQ.ANGLE: "deg", PQ.SPEED: "kts", PQ.PRESSURE: "bar"}):
            d = NMEA2000Decoder(build_network_map=True, preferred_units=units)
            for src, nm in claimers:
                d.decode_tcp(traffic.render({"pgn": 60928, "src": src, "dest": 255, "data": nm.to_bytes(8, "little")}))
            self.decs.append(d)
        # one more decoder that always works with the library's DEBUG logging enabled
        self.debug_dec = NMEA2000Decoder(build_network_map=True)
        for src, nm in claimers:
            self.debug_dec.decode_tcp(traffic.render({"pgn": 60928, "src": src, "dest": 255, "data": nm.to_bytes(8, "little")}))
        self.decs.append(self.debug_dec)
        self.off = NMEA2000Decoder(build_network_map=False)
        self.by_hash = {}
        self.by_key = {}
        self.probe = []

    def decode(self, dec, d, payload, nbytes, src, dest, prio):
        if dec is self.debug_dec:
            from ..common import debug_logging
            with debug_logging():
                return self._decode(dec, d, payload, nbytes, src, dest, prio)
        return self._decode(dec, d, payload, nbytes, src, dest, prio)

    def _decode(self, dec, d, payload, nbytes, src, dest, prio):
        try:
            return dec.decode_basic_string(gen.basic_string(d.pgn, payload, nbytes, src=src, dest=dest, prio=prio), already_combined=True)
        except Exception:
            return None

    def observe(self, target, m, case):
        """Register one returned message; -> discrepancies."""
        out = []
        if m.hash is None:
            return [("C17|hash-missing", f"network map on but message {m.id} has no hash", case)]
        # the key as the DATABASE defines it: raw bits of the fields it marks as part of the primary key, taken from the payload by the
        # reference model (not from the message under test)
        pk = None
        if case.get("payload_hex"):
            try:
                data = bytes.fromhex(case["payload_hex"])
                exps, _, _ = canboat.ref_decode(target, int.from_bytes(data, "little"), len(data))
                pk = tuple((e.u if (e.u is not None and not e.field.type.startswith("STRING")) else
                            "txt:" + repr(e.value) if (e.field.type == "STRING_LAU" and e.kind == "str" and e.value is not None) else
                            "txt:" + repr(m.fields[e.field.index].raw_value) if e.field.index < len(m.fields) else None) for e in exps if e.field.pk)
            except Exception:
                pk = None
        if pk is None:
            pk = tuple(repr(m.fields[f.index].raw_value) for f in target.fields if f.pk and f.index < len(m.fields))
        key = (target.id, pk)
        if m.id != target.id:
            out.append(("C17|wrong-definition", f"message id {m.id!r}, the database rule selects {target.id!r}", case))
        h = m.hash
        if h in self.by_hash and self.by_hash[h][0] != key:
            other = self.by_hash[h]
            out.append(("C17|merged", f"hash {h} is shared by {other[0]} and {key}: messages with different id / key fields are confused",
                        dict(case, other=other[1])))
        if key in self.by_key and self.by_key[key][0] != h:
            other = self.by_key[key]
            out.append(("C17|split", f"key {key} has hashes {other[0]} and {h}: the hash depends on something besides id and key fields",
                        dict(case, other=other[1])))
        self.by_hash.setdefault(h, (key, case))
        self.by_key.setdefault(key, (h, case))
        # serialising the message does not change it ...
        try:
            m.to_json()
        except Exception:
            pass
        if m.hash != h:
            out.append(("C17|hash-changed-by-to_json", f"hash {h} became {m.hash!r} after to_json()", case))
        # ... and the caller owns what it was handed: it tags the message and renumbers a key field
        m.hash = "tagged by the caller"
        for fld in m.fields:
            if fld.part_of_primary_key:
                fld.raw_value, fld.value = 250, 250
        return out


@st.composite
def family(draw, d):
    """base payload + variant payloads: (payload, nbytes, relation)"""
    base, nbytes, _ = draw(gen.payloads(d, mode="accepted", extra_bytes=False))
    out = [(base, nbytes, "base")]
    pk = [f for f in d.fields if f.pk and f.bits is not None and f.offset_bits is not None]
    nonpk = [f for f in d.fields if not f.pk and f.match is None and f.bits is not None and f.offset_bits is not None]
    if d.fixed_layout:
        if nonpk:
            p = base
            for f in draw(st.lists(st.sampled_from(nonpk), min_size=1, max_size=3)):
                cl = gen.field_classes(d, f)
                names = gen.accepted_class_names(f, cl)
                u = gen._draw_value(draw, f, cl[draw(st.sampled_from(names))])
                m = ((1 << f.bits) - 1) << f.offset_bits
                p = (p & ~m) | (u << f.offset_bits)
            out.append((p, nbytes, "nonkey_changed"))
        if pk:
            f = draw(st.sampled_from(pk))
            cl = gen.field_classes(d, f)
            names = gen.accepted_class_names(f, cl)
            u = gen._draw_value(draw, f, cl[draw(st.sampled_from(names))])
            m = ((1 << f.bits) - 1) << f.offset_bits
            out.append(((base & ~m) | (u << f.offset_bits), nbytes, "key_changed"))
        # a value that moves from one key field to another, the field it leaves becoming "not available": (v, n/a) vs (n/a, v)
        nak = [f for f in pk if f.na_code() is not None and not f.na_in_range() and f.match is None]
        if len(nak) >= 2:
            f1, f2 = draw(st.permutations(nak))[:2]
            v = draw(st.integers(0, 3))
            b1, b2 = gen.raw_bounds(f1), gen.raw_bounds(f2)
            if b1 and b2 and b1[0] <= v <= b1[1] and b2[0] <= v <= b2[1]:
                m1, m2 = ((1 << f1.bits) - 1) << f1.offset_bits, ((1 << f2.bits) - 1) << f2.offset_bits
                rest = base & ~m1 & ~m2
                out.append((rest | (v << f1.offset_bits) | (f2.na_code() << f2.offset_bits), nbytes, "key_changed"))
                out.append((rest | (f1.na_code() << f1.offset_bits) | (v << f2.offset_bits), nbytes, "key_changed"))
    else:
        p2, n2, _ = draw(gen.payloads(d, mode="accepted", extra_bytes=False))
        out.append((p2, n2, "redrawn"))
        # string-valued key fields: the same text with one more character appended (a NUL, a blank, an underscore, a digit) is a
        # different raw value and must hash differently
        exps, _, wf = canboat.ref_decode(d, base, nbytes)
        for e in exps:
            if e.field.pk and e.field.type == "STRING_LAU" and wf and e.bits and e.bits >= 16:
                typ = (base >> (e.pos + 8)) & 0xFF
                ch = draw(st.sampled_from(["\x00", " ", "_", "0", "A", "\u00c5", "\u00e9", "\u00d8", "\u4e2d"]))
                extra = ch.encode("utf-8") if typ == 1 else ch.encode("utf-16-le")
                L = e.bits // 8
                if L + len(extra) > 255:
                    continue
                end = e.pos + e.bits
                low = base & ((1 << end) - 1)
                low = (low & ~(0xFF << e.pos)) | ((L + len(extra)) << e.pos)
                spliced = low | (int.from_bytes(extra, "little") << end) | ((base >> end) << (end + 8 * len(extra)))
                out.append((spliced, nbytes + len(extra), "key_changed"))
                break
    return out


def _work(ctx: Ctx, item):
    keys, n = item
    db = canboat.db()
    R = Runner(ctx)
    for key in keys:
        d = db.by_key[key]

        def one(fam, src, src2, prio, dest, d=d):
            out = []
            rels = [r for _, _, r in fam]
            if "nonkey_changed" in rels or "key_changed" in rels:
                ctx.nt((d.key, tuple(p for p, _, _ in fam)))
            for payload, nbytes, rel in fam:
                target = db.select(d.pgn, payload)
                if target is None:
                    continue
                case = {"definition": d.key, "payload_hex": payload.to_bytes(nbytes, "little").hex(), "relation": rel,
                        "source": src, "priority": prio, "destination": dest}
                seen = []
                for di, dec in enumerate(R.decs):
                    for s, pr, de in ((src, prio, dest), (src2, 7 - prio, 255)):
                        m = R.decode(dec, d, payload, nbytes, s, de, pr)
                        ctx.count()
                        if m is None:
                            ctx.klass("rejected")
                            continue
                        ctx.klass("hashed:" + rel)
                        h0 = m.hash
                        out += R.observe(target, m, dict(case, source=s, priority=pr, destination=de, decoder=di))
                        seen.append(h0)
                m0 = R.decode(R.off, d, payload, nbytes, src, dest, prio)
                ctx.count()
                if m0 is not None and m0.hash is not None:
                    out.append(("C17|hash-without-map", f"network map off but message {m0.id} carries hash {m0.hash}", case))
                if seen and len(R.probe) < 40 and rel == "base":
                    R.probe.append((d.pgn, payload.to_bytes(nbytes, "little").hex(), seen[0]))
            return out

        ctx.hyp(one, family(d), st.sampled_from([1, 2, 3]), st.sampled_from([1, 2, 3]), st.integers(0, 7), st.sampled_from([255, 9, 1]),
                max_examples=n, name="families")
        if d.index % 60 == 0:
            ctx.sample({"definition": key, "primary_key_fields": [f.id for f in d.fields if f.pk]})
    # cross-process agreement (another hash seed)
    if R.probe:
        env = dict(os.environ, PYTHONHASHSEED="12345", PYTHONPATH=VERIF + os.pathsep + os.environ.get("PYTHONPATH", ""))
        p = subprocess.run([sys.executable, "-m", "vf.hashprobe"], input=json.dumps([(a, b) for a, b, _ in R.probe]), capture_output=True,
                           text=True, env=env, cwd=VERIF, timeout=120)
        if p.returncode != 0:
            raise RuntimeError("hashprobe failed: " + p.stderr[-400:])
        got = json.loads(p.stdout)
        for (pgn, hx, h), g in zip(R.probe, got):
            ctx.count()
            ctx.klass("subprocess_probe")
            if g != h:
                ctx.report("C17|process-dependent", f"hash {h} in this process, {g} in a fresh process (PYTHONHASHSEED=12345)", {"pgn": pgn, "payload_hex": hx, "probe": True})


def _clients(ctx: Ctx, item=None):
    """Network mapping switched on through each gateway client: delivered messages carry the hash a bare decoder computes."""
    from .. import clientopts as co
    msgs = co.standard_traffic(co.KEYED + co.FAST[:1] + co.KEYED[:2])
    co.run(ctx, "C17", [("build_network_map=True", lambda: {"build_network_map": True}),
                         ("build_network_map=False", lambda: {"build_network_map": False})], msgs, reconnects=((), (5,)))
    from .. import aio
    for kind in aio.CLIENT_KINDS:
        got, s = aio.client_passthrough(kind, aio.render_messages(kind, msgs), {"build_network_map": True})
        ctx.count()
        data = [m for m in got if m.PGN != 60928]
        if not data or any(m.hash is None for m in got):
            ctx.report(f"C17|client-{kind}|hash-missing", f"{kind} client built with build_network_map=True delivered {len(got)} messages, "
                       f"{sum(1 for m in got if m.hash is None)} without a hash", {"clientopts": True, "kind": kind, "options": "build_network_map=True"})


def _deep(ctx: Ctx, item):
    """One decoder that has hashed many distinct entities (more than 2^16 different key combinations): every further message still gets
    its hash, the same a fresh decoder computes, and equal keys keep equal hashes."""
    from nmea2000.decoder import NMEA2000Decoder
    n, = item
    db = canboat.db()
    defs = []
    for k in ("130312/temperature", "130316/temperatureExtendedRange"):      # key fields: instance x source (8 + 8 bits) each
        dd = db.by_key[k]
        bp, bn, _ = gen.benign_payload(dd)
        pos = {f.id: f.offset_bits for f in dd.fields}
        defs.append((dd, bp, bn, pos))
    old = NMEA2000Decoder(build_network_map=True)
    fresh = NMEA2000Decoder(build_network_map=True)
    claim = traffic.render({"pgn": 60928, "src": 1, "dest": 255, "data": traffic.iso_name(11, 1855).to_bytes(8, "little")})
    old.decode_tcp(claim)
    fresh.decode_tcp(claim)
    seen = {}
    bad = 0
    for i in range(n):
        dd, bp, bn, pos = defs[(i // 64000) % 2]
        j = i % 64000
        p = (bp & ~(0xFF << pos["instance"]) & ~(0xFF << pos["source"])) | ((j % 250) << pos["instance"]) | ((j // 250) << pos["source"])
        key = (dd.id, j % 250, j // 250)
        pk = traffic.render({"pgn": dd.pgn, "src": 1, "dest": 255, "data": p.to_bytes(bn, "little")[:8]})
        try:
            m = old.decode_tcp(pk)
        except Exception as e:
            ctx.report("C17|deep|decoder-error", f"message {i + 1}: {type(e).__name__}: {e}", {"deep": n})
            break
        ctx.count()
        if m is None or m.hash is None:
            bad += 1
            if bad == 1:
                ctx.report("C17|deep|hash-missing", f"message number {i + 1} decoded by one decoder ({len(seen)} distinct keys so far) has no hash",
                           {"deep": n})
            continue
        if key in seen and seen[key] != m.hash:
            ctx.report("C17|deep|split", f"key {key} hashed differently the second time (message {i + 1})", {"deep": n})
        seen.setdefault(key, m.hash)
        if i % 997 == 0 or i > n - 50:
            try:
                f = fresh.decode_tcp(pk)
            except Exception:
                f = None
            if f is None or f.hash != m.hash:
                ctx.report("C17|deep|differs-from-fresh", f"message {i + 1}: the long-lived decoder computes {m.hash}, a fresh one {f.hash if f else None}", {"deep": n})
    if len(set(seen.values())) != len(seen):
        ctx.report("C17|deep|merged", f"{len(seen)} distinct keys share {len(set(seen.values()))} hashes", {"deep": n})
    ctx.nontrivial_extra += len(seen)
    ctx.klass("deep_history_distinct_keys", len(seen))


def _siblings(ctx: Ctx, item):
    """All definitions of a multi-definition PGN decoded back to back on the same decoders from the same source (both orders):
    the hash of a message must not depend on what the decoder saw before."""
    pgns, = item
    db = canboat.db()
    for pgn in pgns:
        ds = [d for d in db.by_pgn[pgn] if d.supported]
        R = Runner(ctx)
        for order in (ds, list(reversed(ds)), ds):
            for d in order:
                bp, bn, _ = gen.benign_payload(d)
                target = db.select(d.pgn, bp)
                if target is None:
                    continue
                for di, dec in enumerate(R.decs):
                    m = R.decode(dec, d, bp, bn, 1, 255, 3)
                    ctx.count()
                    if m is None:
                        continue
                    ctx.nt((d.key, "sibling-sequence", di))
                    case = {"definition": d.key, "payload_hex": bp.to_bytes(bn, "little").hex(), "relation": "sibling-sequence", "source": 1,
                            "priority": 3, "destination": 255, "decoder": di, "siblings": [x.key for x in ds]}
                    for b, w, c in R.observe(target, m, case):
                        ctx.report(b + "|after-sibling", w, c)
    ctx.klass("sibling_sequences")


def run(ctx: Ctx):
    pmap(ctx, _clients, [None])
    import os
    if not os.environ.get("VF_SUBPASS"):
        pmap(ctx, _deep, [(70000 if ctx.quick else 300000,)])
    db = canboat.db()
    multi = [pgn for pgn, ds in db.by_pgn.items() if len(ds) > 1]
    pmap(ctx, _siblings, [([p],) for p in multi])
    keys = [d.key for d in db.defs if d.supported]
    n = 5 if ctx.quick else 400
    # definitions with primary keys first, spread over shards
    keys.sort(key=lambda k: -sum(f.pk for f in db.by_key[k].fields))
    shards = [keys[i::16] for i in range(16)]
    pmap(ctx, _work, [(s, n) for s in shards if s])
    ctx.notes["definitions"] = len(keys)
    ctx.notes["definitions_with_primary_key"] = sum(1 for k in keys if any(f.pk for f in db.by_key[k].fields))


def replay(ctx: Ctx, case):
    if case.get("deep"):
        sub = Ctx(ctx.pid)
        sub.known_open = {}
        _deep(sub, (case["deep"],))
        return [(b, v["what"], v["case"]) for b, v in sub.found.items()]
    if case.get("clientopts"):
        from .. import clientopts as co
        return co.replay("C17", _clients, case)
    db = canboat.db()
    R = Runner(ctx)
    if case.get("probe"):
        return []
    if case.get("siblings"):
        out = []
        for order in (case["siblings"], list(reversed(case["siblings"])), case["siblings"]):
            for k in order:
                d = db.by_key[k]
                bp, bn, _ = gen.benign_payload(d)
                target = db.select(d.pgn, bp)
                for di, dec in enumerate(R.decs):
                    m = R.decode(dec, d, bp, bn, 1, 255, 3)
                    if m is not None and target is not None:
                        out += [(b + "|after-sibling", w, c) for b, w, c in R.observe(target, m, dict(case, definition=k))]
        return out
    out = []
    for c in ([case["other"]] if "other" in case else []) + [case]:
        d = db.by_key[c["definition"]]
        data = bytes.fromhex(c["payload_hex"])
        payload = int.from_bytes(data, "little")
        target = db.select(d.pgn, payload)
        m = R.decode(R.decs[c.get("decoder", 0)], d, payload, len(data), c["source"], c["destination"], c["priority"])
        if m is not None and target is not None:
            out += R.observe(target, m, c)
        m0 = R.decode(R.off, d, payload, len(data), c["source"], c["destination"], c["priority"])
        if m0 is not None and m0.hash is not None:
            out.append(("C17|hash-without-map", "network map off but hash set", c))
    return out
