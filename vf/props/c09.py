"""C09 - encoding never silently corrupts a value."""
from __future__ import annotations

import math
from datetime import date, time, timedelta
from fractions import Fraction

from hypothesis import strategies as st

from .. import canboat, gen
from ..common import Ctx, pmap

LEVEL = "exploration"
LEVEL_TEXT = ("Every encodable definition is given generated field-value assignments in the slots its encoder reads (in-range incl. both "
              "database ends and half-step values, absent, one step beyond either end of the representable interval, far out of range, "
              "negative for unsigned, non-member lookup names, overflowing floats, a removed field). Outcome must be an error or a payload "
              "whose bits (own extraction) carry the assigned values; single-field changes must not touch other bits. Sampled, not exhaustive.")
TECHNIQUE = "property-based testing with a must-reject / round-trip oracle on own bit extraction and a metamorphic single-field-change relation"
RULE = ("encodable definitions x per-field value classes {in-range, db range ends, half step, absent, representable end, one step beyond, far "
        "out, negative unsigned, lookup by name / bad name, date/time objects, removed field}; oracle: error or payload with |raw*res+off - "
        "value| <= res/2 (numbers), exact (lookup/date/time/reserved), NA code (absent); unrepresentable values and missing fields must be "
        "rejected; metamorphic: changing one field changes only its bits; non-trivial = assignment containing an end-of-range, out-of-range, "
        "absent or removed field; distinct = (definition, assignment)")
ASSUMPTIONS = [
    "values are placed in the slot the generated encoder reads: NUMBER/PGN/FLOAT/RESERVED value; LOOKUP raw_value or (None, name); DATE raw "
    "days or (None, date); TIME/DURATION raw seconds or (None, time with whole seconds)",
    "values between the database range and the representable interval may be accepted or rejected but never altered",
    "any exception counts as 'fails with an error'",
]

NONTRIVIAL = ("range_min", "range_max", "half_step", "absent", "rep_min", "rep_max", "beyond_hi", "beyond_lo", "far_hi", "far_lo",
              "negative", "bad_name", "removed", "float_overflow", "raw_too_wide", "raw_negative")


def rep_interval(f):
    """Representable raw interval (denoted integers), not-available code excluded."""
    n = f.bits
    if f.signed and f.offset is None:
        lo, hi = -(1 << (n - 1)), (1 << (n - 1)) - 2
    else:
        lo, hi = 0, (1 << n) - 2
    if n == 1:
        hi = 1
    return lo, hi


def num_value(f, raw_num: Fraction):
    """Python value for denoted integer (possibly fractional) raw_num."""
    v = raw_num * f.res + (f.offset or 0)
    if v.denominator == 1 and f.res.denominator == 1:
        return int(v)
    return float(v)


@st.composite
def field_assignment(draw, d, f, force=None, legal_only=False):
    """-> dict(cls, value, raw_value, expect) for one field.  expect: ('raw', u) exact unsigned bits | ('num', value) | ('reject',) |
    ('either', value) accepted-unaltered-or-rejected"""
    from nmea2000.message import NMEA2000Field
    t = f.type
    n = f.bits
    full = (1 << n) - 1
    if f.match is not None and force in (None, "in_range"):
        # match fields identify the definition: a message of this definition carries exactly these values
        if t == "LOOKUP":
            return {"cls": "match", "value": canboat.db().lookups[f.lookup].get(f.match), "raw_value": f.match, "expect": ("raw", f.match), "target": None}
        return {"cls": "match", "value": f.match, "raw_value": f.match, "expect": ("raw", f.match), "target": None}
    if t in ("NUMBER", "PGN", "TIME", "DURATION", "DATE") or (t in ("TIME", "DURATION")):
        lo, hi = rep_interval(f)
        b = gen.raw_bounds(f)
        dlo, dhi = b if b else (lo, hi)
        classes = ["in_range", "in_range", "range_min", "range_max", "half_step", "absent", "rep_min", "rep_max", "beyond_hi", "beyond_lo",
                   "far_hi", "far_lo", "between"]
        edges = gen.number_classes(f).get("magnitude_edge") if t in ("NUMBER", "PGN", "DURATION", "TIME") else None
        if edges:
            classes += ["magnitude_edge", "magnitude_edge_ulp"]
        if not (f.signed and f.offset is None):
            classes.append("negative")
        if t in ("TIME",):
            classes.append("time_obj")
        if t == "DATE":
            classes.append("date_obj")
        if legal_only:
            classes = [c for c in classes if c in LEGAL]
        cls = force or draw(st.sampled_from(classes))
        exp = None
        if cls in ("in_range", "between"):
            a, bb = (dlo, dhi) if cls == "in_range" else (lo, hi)
            r = Fraction(draw(st.integers(a, bb)))
            exp = ("num",) if dlo <= r <= dhi else ("either",)
        elif cls in ("magnitude_edge", "magnitude_edge_ulp"):
            # raws / values at 2^k, 10^k (+-1): where float arithmetic changes exponent; "_ulp": the neighbouring float of that value
            u = draw(st.sampled_from(edges[1]))
            if f.signed and f.offset is None and u >> (n - 1):
                u -= 1 << n
            r, exp = Fraction(u), ("num",) if dlo <= u <= dhi else ("either",)
        elif cls == "range_min":
            r, exp = Fraction(dlo), ("num",)
        elif cls == "range_max":
            r, exp = Fraction(dhi), ("num",)
        elif cls == "half_step":
            if dhi - dlo < 1 or f.res.denominator == 1 and t == "DATE":
                r, exp = Fraction(dlo), ("num",)
            else:
                r, exp = Fraction(draw(st.integers(dlo, dhi - 1))) + Fraction(1, 2) * draw(st.sampled_from([1, 1, Fraction(1, 2), Fraction(3, 2)])), ("num",)
                if r > dhi:
                    r = Fraction(dhi)
        elif cls == "absent":
            r, exp = None, ("raw", f.na_code()) if f.na_code() is not None else ("reject",)
        elif cls == "rep_min":
            r = Fraction(lo)
            exp = ("num",) if dlo <= r <= dhi else ("either",)
        elif cls == "rep_max":
            r = Fraction(hi)
            exp = ("num",) if dlo <= r <= dhi else ("either",)
        elif cls == "beyond_hi":
            r, exp = Fraction(hi + 1), ("reject",)
        elif cls == "beyond_lo":
            r, exp = Fraction(lo - 1), ("reject",)
        elif cls == "far_hi":
            r, exp = Fraction(hi + draw(st.integers(2, 1 << min(n + 4, 70)))), ("reject",)
        elif cls == "far_lo":
            r, exp = Fraction(lo - draw(st.integers(2, 1 << min(n + 4, 70)))), ("reject",)
        elif cls == "negative":
            r, exp = Fraction(-draw(st.integers(1, 1000))), ("reject",)
        elif cls == "time_obj":
            secs = draw(st.one_of(st.integers(0, 86399), st.sampled_from([0, 1, 59, 60, 3599, 3600, 43199, 43200, 86398, 86399, 86399, 86399])))
            # datetime.time carries microseconds; the library's time values are whole seconds (its decoder produces nothing finer), so a
            # fraction may be dropped or rounded to the field's step - but the time must stay the same second of the same day
            us = draw(st.sampled_from([0, 0, 0, 1, 49, 50, 51, 49999, 50000, 499999, 500000, 999949, 999950, 999951, 999999]))
            tv = time(secs // 3600, (secs % 3600) // 60, secs % 60, us)
            return {"cls": cls, "value": tv, "raw_value": None, "expect": ("num",), "target": Fraction(secs) + Fraction(us, 10 ** 6),
                    "tol": Fraction(1) if us else None, "time_value": tv}
        elif cls == "date_obj":
            days = draw(st.integers(max(dlo, 0), min(dhi, 65000)))
            return {"cls": cls, "value": date(1970, 1, 1) + timedelta(days=days), "raw_value": None, "expect": ("raw", days), "target": Fraction(days)}
        if r is None:
            val = None
            target = None
        else:
            val = num_value(f, r)
            if cls == "magnitude_edge_ulp" and isinstance(val, float):
                import math
                val = math.nextafter(val, math.inf if draw(st.booleans()) else -math.inf)
            target = Fraction(val)      # what the caller actually passed (a float)
            # a float cannot always carry the exact step; decide must-reject on what was actually passed
            if exp == ("reject",):
                rr = (target - (f.offset or 0)) / f.res
                if lo - Fraction(1, 2) < rr < hi + Fraction(1, 2):
                    exp = ("either",)
        if t in ("NUMBER", "PGN"):
            return {"cls": cls, "value": val, "raw_value": val, "expect": exp, "target": target}
        if t in ("TIME", "DURATION"):
            return {"cls": cls, "value": None, "raw_value": val, "expect": exp, "target": target}
        # DATE via raw days
        if val is not None and not isinstance(val, int):
            val = int(val)
            target = Fraction(val)
        if exp[0] != "raw" and val is not None:
            exp = ("raw", val & full) if lo <= val <= hi else ("reject",)
        return {"cls": cls, "value": None, "raw_value": val, "expect": exp, "target": target,
                "outside_db": val is not None and not (dlo <= val <= dhi)}
    if t == "RESERVED":
        cls = force or draw(st.sampled_from(["in_range", "in_range", "zero", "all_ones"] + ([] if legal_only else ["raw_too_wide", "raw_negative"])))
        if cls == "raw_too_wide":
            v = full + draw(st.integers(1, 1 << 8))
            return {"cls": cls, "value": v, "raw_value": v, "expect": ("reject",), "target": None}
        if cls == "raw_negative":
            v = -draw(st.integers(1, 300))
            return {"cls": cls, "value": v, "raw_value": v, "expect": ("reject",), "target": None}
        v = 0 if cls == "zero" else full if cls == "all_ones" else draw(st.integers(0, full))
        return {"cls": cls, "value": v, "raw_value": v, "expect": ("raw", v), "target": None}
    if t == "LOOKUP":
        table = canboat.db().lookups[f.lookup]
        names = {}
        for k, name in table.items():
            names.setdefault(name, []).append(k)
        uniq = [(name, ks[0]) for name, ks in names.items() if len(ks) == 1 and ks[0] <= full]
        classes = ["in_range", "in_range", "raw_too_wide", "raw_negative", "bad_name"] + (["by_name", "by_name"] if uniq else [])
        if legal_only:
            classes = [c for c in classes if c in LEGAL]
        cls = force or draw(st.sampled_from(classes))
        if cls == "by_name":
            name, k = draw(st.sampled_from(uniq))
            return {"cls": cls, "value": name, "raw_value": None, "expect": ("raw", k), "target": None}
        if cls == "bad_name":
            return {"cls": cls, "value": "no such entry " + draw(st.text(alphabet="xyz", max_size=3)), "raw_value": None, "expect": ("reject",), "target": None}
        if cls == "raw_too_wide":
            v = full + draw(st.integers(1, 1 << 8))
            return {"cls": cls, "value": None, "raw_value": v, "expect": ("reject",), "target": None}
        if cls == "raw_negative":
            v = -draw(st.integers(1, 300))
            return {"cls": cls, "value": None, "raw_value": v, "expect": ("reject",), "target": None}
        v = draw(st.integers(0, full))
        return {"cls": cls, "value": table.get(v), "raw_value": v, "expect": ("raw", v), "target": None}
    if t == "FLOAT":
        cls = force or draw(st.sampled_from(["in_range", "in_range", "range_min", "range_max", "zero"] + ([] if legal_only else ["absent", "float_overflow"])))
        cl = gen.float_classes(f)
        if cls == "absent":
            return {"cls": cls, "value": None, "raw_value": None, "expect": ("reject",), "target": None}
        if cls == "float_overflow":
            v = draw(st.sampled_from([1e39, -1e39, 3.5e38, 1e300]))
            return {"cls": cls, "value": v, "raw_value": v, "expect": ("reject",), "target": None}
        if cls == "zero":
            u = 0
        elif cls in ("range_min", "range_max") and cls in cl:
            u = cl[cls]
        else:
            u = gen._draw_value(draw, f, cl["uniform_in"])
        v = canboat.f32(u)
        if v != v:
            u, v = 0, 0.0
        return {"cls": cls, "value": v, "raw_value": v, "expect": ("raw", u), "target": None}
    raise AssertionError(t)


LEGAL = ("hash_twin", "magnitude_edge", "magnitude_edge_ulp", "in_range", "range_min", "range_max", "half_step", "absent", "rep_min", "rep_max", "between", "by_name", "time_obj", "date_obj",
         "zero", "all_ones")


@st.composite
def assignment(draw, d):
    mode = draw(st.sampled_from(["legal", "legal", "one_bad", "mixed"]))
    if mode == "mixed":
        fields = [draw(field_assignment(d, f)) for f in d.fields]
    else:
        bad = draw(st.integers(0, len(d.fields) - 1)) if mode == "one_bad" else -1
        fields = [draw(field_assignment(d, f, legal_only=(i != bad))) for i, f in enumerate(d.fields)]
    removed = None
    if draw(st.integers(0, 14)) == 0:
        removed = draw(st.integers(0, len(fields) - 1))
    free = [i for i, f in enumerate(d.fields) if f.match is None] or [0]
    change = draw(st.sampled_from(free))
    alt = draw(field_assignment(d, d.fields[change]))
    # two consecutive messages that differ in ONE value, the two values being equal under CPython's hash (-1 / -2, x / x + 2**61 - 1):
    # a fingerprint of the previous message built with hash() cannot tell them apart
    twins = [i for i in free if d.fields[i].type in ("NUMBER", "DURATION") and hash_twin_values(d.fields[i])]
    if twins and removed is None and draw(st.integers(0, 5)) == 0:
        change = draw(st.sampled_from(twins))
        v1, v2 = draw(st.sampled_from(hash_twin_values(d.fields[change])))
        as_float = draw(st.booleans())
        mk = (lambda v: {"cls": "hash_twin", "value": (float(v) if as_float else v) if d.fields[change].type == "NUMBER" else None,
                         "raw_value": float(v) if as_float else v, "expect": ("num",), "target": Fraction(v)})
        fields = [a if i == change or a["expect"][0] != "reject" else draw(field_assignment(d, d.fields[i], legal_only=True)) for i, a in enumerate(fields)]
        fields[change], alt = mk(v1), mk(v2)
    return fields, removed, change, alt


def hash_twin_values(f):
    """Pairs of different legal values of field f with equal CPython hash."""
    b = gen.raw_bounds(f)
    if not b:
        return []
    off = f.offset or 0
    out = []
    for v1, v2 in ((-1, -2), (1, 1 + (1 << 61) - 1), (0, (1 << 61) - 1), (-1, -2 - ((1 << 61) - 1))):
        ok = True
        for v in (v1, v2):
            r = (Fraction(v) - off) / f.res
            if r.denominator != 1 or not (b[0] <= r <= b[1]) or float(v) != v:
                ok = False
        if ok:
            out.append((v1, v2))
    return out


def build_message(d, fields, removed=None):
    from nmea2000.message import NMEA2000Field, NMEA2000Message
    fl = [NMEA2000Field(id=f.id, value=a["value"], raw_value=a["raw_value"]) for i, (f, a) in enumerate(zip(d.fields, fields)) if i != removed]
    return NMEA2000Message(PGN=d.pgn, id=d.id, fields=fl, source=1, destination=255, priority=3)


def encode(enc, msg):
    """-> (payload bytes | None, exception | None)"""
    try:
        text = enc.encode_actisense(msg)
    except Exception as e:
        return None, e
    parts = text.split(" ")
    return bytes.fromhex(parts[2]) if len(parts) > 2 else b"", None


class Checker:
    def __init__(self, ctx):
        from nmea2000.decoder import NMEA2000Decoder
        from nmea2000.encoder import NMEA2000Encoder
        self.ctx = ctx
        self.enc = NMEA2000Encoder()
        self.dec = NMEA2000Decoder()

    def describe(self, d, fields, removed, change=None, alt=None):
        def one(a):
            return {"cls": a["cls"], "value": repr(a["value"]), "raw_value": repr(a["raw_value"])}
        c = {"definition": d.key, "fields": [one(a) for a in fields], "removed": removed}
        if alt is not None:
            c["change"] = change
            c["alt"] = one(alt)
        return c

    def field_problems(self, d, f, a, payload, case):
        """Bits of field f in the encoded payload against what assignment a asked for."""
        out = []
        u = (payload >> f.offset_bits) & ((1 << f.bits) - 1)
        e = a["expect"]
        if e[0] == "reject":
            return out
        if e[0] == "raw":
            if u != e[1]:
                out.append((f"C09|wrong-bits|{f.type}|{a['cls']}|{d.key}/{f.id}",
                            f"{f.id}: {a['cls']} value={a['value']!r} raw_value={a['raw_value']!r} encoded as {u:#x}, expected {e[1]:#x}", case))
        else:
            got = f.exact(u)
            na = f.na_code()
            if na is not None and u == na and not f.na_in_range():
                out.append((f"C09|value-became-absent|{f.type}|{a['cls']}|{d.key}/{f.id}", f"{f.id}: value {a['value']!r}/{a['raw_value']!r} encoded as the not-available code", case))
            elif abs(got - a["target"]) > (a.get("tol") or f.res / 2) * (1 + Fraction(1, 10 ** 9)) + abs(a["target"]) * Fraction(1, 10 ** 12):
                out.append((f"C09|altered|{f.type}|{a['cls']}|{d.key}/{f.id}",
                            f"{f.id}: {a['cls']} value {float(a['target'])!r} encoded as raw {u:#x} = {float(got)!r} (resolution {float(f.res)})", case))
        return out

    def check(self, d, fields, removed, change, alt):
        ctx = self.ctx
        out = []
        case = self.describe(d, fields, removed)
        data, err = encode(self.enc, build_message(d, fields, removed))
        if removed is not None:
            ctx.klass("removed_field")
            if data is not None:
                out.append((f"C09|missing-field-accepted|{d.key}/{d.fields[removed].id}", f"message without field {d.fields[removed].id} was encoded", case))
            return out
        rejects = [(f, a) for f, a in zip(d.fields, fields) if a["expect"][0] == "reject"]
        if data is None:
            ctx.klass("rejected")
            if not rejects and all(a["expect"][0] != "either" for a in fields):
                # nothing out of the ordinary was passed: an error here is allowed by the statement ("either fails with an error or...")
                ctx.klass("rejected_all_legal")
                ctx.notes.setdefault("rejected_all_legal", set()).add(f"{d.key}: {type(err).__name__}: {str(err)[:80]}")
            return out
        ctx.klass("encoded")
        for f, a in rejects:
            out.append((f"C09|accepted-unrepresentable|{f.type}|{a['cls']}|{d.key}/{f.id}",
                        f"{f.id} ({f.type}, {f.bits} bits): {a['cls']} value={a['value']!r} raw_value={a['raw_value']!r} was encoded instead of rejected", case))
        payload = int.from_bytes(data, "little")
        all_db = True
        for f, a in zip(d.fields, fields):
            if a["expect"][0] in ("reject", "either") or a.get("outside_db"):
                all_db = False
            out += self.field_problems(d, f, a, payload, case)
        # library decode agrees when every value is inside the database range
        if all_db and not out and canboat.db().select(d.pgn, payload) is not d:
            ctx.klass("decode_back_skipped_sibling_selected")     # non-match fields happen to carry a sibling's match values (C08 decides that)
        elif all_db and not out:
            try:
                back = self.dec.decode_basic_string(gen.basic_string(d.pgn, payload, max(len(data), 1)), already_combined=True)
            except Exception as e:
                back = None
                if d.supported:
                    out.append((f"C09|decode-back-error|{d.key}|{type(e).__name__}:{str(e)[:40]}",
                                f"payload encoded from in-range values cannot be decoded: {type(e).__name__}: {e}", case))
                else:
                    ctx.klass("decode_back_unsupported_definition")
            if back is not None and back.id == d.id:
                for f, a, g in zip(d.fields, fields, back.fields):
                    e = a["expect"]
                    if e[0] == "num" and a["target"] is not None and f.type in ("NUMBER", "PGN", "DURATION"):
                        if g.value is None or abs(Fraction(g.value) - a["target"]) > f.res / 2 * (1 + Fraction(1, 10 ** 6)) + abs(a["target"]) * Fraction(1, 10 ** 12):
                            out.append((f"C09|decode-back|{f.type}|{a['cls']}|{d.key}/{f.id}", f"{f.id}: encoded {float(a['target'])!r} decodes back as {g.value!r}", case))
                    elif a.get("time_value") is not None:
                        # what the library itself reads back: the same second of the day (fractions may be gone)
                        tv, gv = a["time_value"], g.value
                        back_s = None if gv is None else gv.hour * 3600 + gv.minute * 60 + gv.second + gv.microsecond / 1e6
                        want_s = tv.hour * 3600 + tv.minute * 60 + tv.second + tv.microsecond / 1e6
                        if back_s is None or abs(back_s - want_s) >= 1.0:
                            out.append((f"C09|decode-back|TIME|time_obj|{d.key}/{f.id}", f"{f.id}: time {tv!r} decodes back as {gv!r}", case))
                    elif a["cls"] == "absent" and f.type != "FLOAT" and (g.value is not None) and not f.na_in_range():
                        out.append((f"C09|decode-back-absent|{f.type}|{d.key}/{f.id}", f"{f.id}: absent value decodes back as {g.value!r}", case))
        # metamorphic: change one field, only its bits change
        if not out:
            f = d.fields[change]
            fields2 = list(fields)
            fields2[change] = alt
            data2, err2 = encode(self.enc, build_message(d, fields2))
            # the application keeps ONE message object, updates the field in place and sends it again through the same encoder
            msg = build_message(d, fields)
            encode(self.enc, msg)
            msg.fields[change].value, msg.fields[change].raw_value = alt["value"], alt["raw_value"]
            data3, err3 = encode(self.enc, msg)
            if data3 != data2:
                ctx.klass("in_place_update_differs")
                out.append((f"C09|in-place-update|{f.type}|{d.key}/{f.id}", f"{f.id} updated in place to {alt['cls']} value={alt['value']!r} raw_value={alt['raw_value']!r} and "
                            f"encoded again through the same encoder: {data3.hex() if data3 is not None else type(err3).__name__}, "
                            f"a new message with these values encodes as {data2.hex() if data2 is not None else type(err2).__name__}",
                            self.describe(d, fields, None, change, alt)))
            if data2 is not None:
                ctx.klass("metamorphic_pairs")
                # the second message (same encoder, right after the first) carries the NEW value of the changed field
                for b_, w_, c_ in self.field_problems(d, f, alt, int.from_bytes(data2, "little"), self.describe(d, fields, None, change, alt)):
                    out.append((b_ + "|second-message", w_ + " (second of two consecutive messages that differ in this field only)", c_))
                m = ((1 << f.bits) - 1) << f.offset_bits
                diff = (int.from_bytes(data2, "little") ^ payload) & ~m
                if diff:
                    out.append((f"C09|neighbour-bits-changed|{d.key}/{f.id}", f"changing {f.id} ({alt['cls']}) changed bits outside the field: {diff:#x}",
                                self.describe(d, fields, None, change, alt)))
        return out


def _work(ctx: Ctx, item):
    keys, n = item
    db = canboat.db()
    ck = Checker(ctx)
    for key in keys:
        d = db.by_key[key]

        def one(asg, d=d):
            fields, removed, change, alt = asg
            ctx.count()
            cl = [a["cls"] for a in fields] + (["removed"] if removed is not None else [])
            for c in set(cl):
                ctx.klass("class:" + c)
            if any(c in NONTRIVIAL for c in cl):
                ctx.nt((d.key, repr([(a["value"], a["raw_value"]) for a in fields]), removed))
            return ck.check(d, fields, removed, change, alt)

        ctx.hyp(one, assignment(d), max_examples=n, name="assign")
        # systematic: each field once in each must-reject / boundary class with the others in range
        for fi, f in enumerate(d.fields):
            if f.match is not None:
                continue
            for cls in ("range_min", "range_max", "absent", "beyond_hi", "beyond_lo", "rep_max", "raw_too_wide", "raw_negative", "bad_name",
                        "float_overflow", "negative"):
                if not class_applies(f, cls):
                    continue

                @st.composite
                def forced(draw, fi=fi, cls=cls, d=d):
                    fields = [draw(field_assignment(d, g, force=(cls if j == fi else "in_range"))) for j, g in enumerate(d.fields)]
                    return fields, None, fi, draw(field_assignment(d, d.fields[fi], force="in_range"))
                ctx.hyp(one, forced(), max_examples=1, name="forced", rounds=1, shrink=False)
        if d.index % 40 == 0:
            ctx.sample({"definition": key, "fields": [(f.id, f.type, f.bits) for f in d.fields][:8]})


def class_applies(f, cls):
    t = f.type
    if t in ("NUMBER", "PGN", "TIME", "DURATION", "DATE"):
        if cls == "negative":
            return not (f.signed and f.offset is None)
        return cls in ("range_min", "range_max", "absent", "beyond_hi", "beyond_lo", "rep_max")
    if t == "RESERVED":
        return cls in ("raw_too_wide", "raw_negative")
    if t == "LOOKUP":
        return cls in ("raw_too_wide", "raw_negative", "bad_name")
    if t == "FLOAT":
        return cls in ("range_min", "range_max", "absent", "float_overflow")
    return False


def _threads(ctx: Ctx, item):
    from .. import threads
    threads.decode_pass(ctx, "C09", *item, mode="encode")


def lookup_name_messages(d):
    """For every LOOKUP field of definition d and every entry of its table whose name is unique: a benign message in which that field is
    given BY NAME (raw_value None). -> list of (field, name, code, message)"""
    from nmea2000.message import NMEA2000Field, NMEA2000Message
    m0 = gen.benign_message(d)
    if m0 is None or len(m0.fields) != len(d.fields):
        return []
    out = []
    for i, f in enumerate(d.fields):
        if f.type != "LOOKUP" or f.match is not None or f.bits is None:
            continue
        table = canboat.db().lookups.get(f.lookup) or {}
        names = {}
        for k, name in table.items():
            names.setdefault(name, []).append(k)
        for name, ks in sorted(names.items(), key=lambda kv: kv[1][0]):
            if len(ks) != 1 or ks[0] >= (1 << f.bits) - (2 if f.bits > 1 else 0) or not name:
                continue
            fl = [NMEA2000Field(id=x.id, name=x.name, value=(name if j == i else x.value), raw_value=(None if j == i else x.raw_value)) for j, x in enumerate(m0.fields)]
            out.append((f, name, ks[0], NMEA2000Message(PGN=d.pgn, id=d.id, fields=fl, source=1, destination=255, priority=3)))
    return out


def _lookup_names(ctx: Ctx, keys):
    """Every lookup field of every encodable definition given by each of its (unique) names: the code of THAT field's table is written."""
    from nmea2000.encoder import NMEA2000Encoder
    db = canboat.db()
    n = 0
    for key in keys:
        d = db.by_key[key]
        for f, name, code, m in lookup_name_messages(d):
            data, err = encode(NMEA2000Encoder(), m)
            ctx.count()
            n += 1
            case = {"lookup_name": key, "field": f.id, "name": name}
            if data is None:
                continue                    # refusing is allowed
            u = (int.from_bytes(data, "little") >> f.offset_bits) & ((1 << f.bits) - 1)
            if u != code:
                ctx.report(f"C09|wrong-bits|LOOKUP|by_name|{key}/{f.id}", f"{f.id} given by name {name!r}: encoded as {u}, the field's table {f.lookup} says {code}", case)
    ctx.nontrivial_extra += n
    ctx.klass("lookup_fields_by_every_name", n)


def run(ctx: Ctx):
    encodable = [d.key for d in canboat.db().defs if d.encodable]
    pmap(ctx, _lookup_names, [encodable[i::16] for i in range(16)])
    from .. import threads as _th
    tk = [d.key for d in _th.thread_definitions() if d.encodable]
    pmap(ctx, _threads, [(tk[i::16], 2 if ctx.quick else 30, 1000) for i in range(16) if tk[i::16]])
    db = canboat.db()
    enc = [d.key for d in db.defs if d.encodable]
    n = 60 if ctx.quick else 2500
    shards = [enc[i::48] for i in range(48)]
    pmap(ctx, _work, [(s, n) for s in shards if s])
    ctx.notes["encodable_definitions"] = len(enc)


def replay(ctx: Ctx, case):
    if "lookup_name" in case:
        sub = Ctx(ctx.pid)
        sub.known_open = {}
        _lookup_names(sub, [case["lookup_name"]])
        return [(b, v["what"], v["case"]) for b, v in sub.found.items() if v["case"].get("field") == case.get("field") and v["case"].get("name") == case.get("name")]
    if case.get("threads"):
        from .. import threads
        return threads.decode_replay("C09", case)
    """Replays re-evaluate the stored python literals of the assignment."""
    from datetime import date as _d, time as _t
    import datetime
    d = canboat.db().by_key[case["definition"]]
    ns = {"datetime": datetime, "nan": float("nan"), "inf": float("inf")}

    def back(x):
        return eval(x, ns)   # repr() of int/float/str/None/date/time written by this harness
    ck = Checker(ctx)
    fields = []
    for f, a in zip(d.fields, case["fields"]):
        fields.append(reconstruct(f, a["cls"], back(a["value"]), back(a["raw_value"])))
    change = case.get("change", 0)
    alt = fields[change]
    if "alt" in case:
        alt = reconstruct(d.fields[change], case["alt"]["cls"], back(case["alt"]["value"]), back(case["alt"]["raw_value"]))
    return ck.check(d, fields, case.get("removed"), change, alt)


def reconstruct(f, cls, value, raw_value):
    """Recompute the expectation of a stored assignment from its class and values."""
    a = {"cls": cls, "value": value, "raw_value": raw_value, "target": None}
    if cls == "match":
        a["expect"] = ("raw", f.match)
        return a
    t = f.type
    full = (1 << f.bits) - 1
    if t in ("NUMBER", "PGN", "TIME", "DURATION", "DATE"):
        lo, hi = rep_interval(f)
        b = gen.raw_bounds(f)
        dlo, dhi = b if b else (lo, hi)
        src = value if t in ("NUMBER", "PGN") else raw_value
        if cls == "time_obj":
            a["expect"], a["target"] = ("num",), Fraction(value.hour * 3600 + value.minute * 60 + value.second) + Fraction(value.microsecond, 10 ** 6)
            a["tol"], a["time_value"] = (Fraction(1) if value.microsecond else None), value
            return a
        if cls == "date_obj":
            days = (value - date(1970, 1, 1)).days
            a["expect"], a["target"] = ("raw", days), Fraction(days)
            return a
        if src is None:
            a["expect"] = ("raw", f.na_code()) if f.na_code() is not None else ("reject",)
            return a
        a["target"] = Fraction(src)
        rr = (a["target"] - (f.offset or 0)) / f.res
        if t == "DATE":
            a["expect"] = ("raw", int(src) & full) if lo <= src <= hi else ("reject",)
            a["outside_db"] = not (dlo <= src <= dhi)
        elif rr <= lo - Fraction(1, 2) or rr >= hi + Fraction(1, 2):
            a["expect"] = ("reject",)
        elif dlo <= rr <= dhi:
            a["expect"] = ("num",)
        else:
            a["expect"] = ("either",)
        return a
    if t == "RESERVED":
        a["expect"] = ("raw", value) if 0 <= value <= full else ("reject",)
        return a
    if t == "LOOKUP":
        if raw_value is None:
            table = canboat.db().lookups[f.lookup]
            ks = [k for k, n in table.items() if n == value]
            a["expect"] = ("raw", ks[0]) if len(ks) == 1 else ("reject",)
        else:
            a["expect"] = ("raw", raw_value) if 0 <= raw_value <= full else ("reject",)
        return a
    if t == "FLOAT":
        if value is None or abs(value) > 3.4028235677973366e38:
            a["expect"] = ("reject",)
        else:
            a["expect"] = ("raw", gen.f32bits(value))
        return a
    raise AssertionError(t)
