"""C03 - fast-packet segmentation and reassembly are inverse for every payload length."""
from __future__ import annotations

from .. import canboat, fastpacket as fp, gen, wire
from ..common import Ctx, chunks, pmap

LEVEL = "exploration"
LEVEL_TEXT = ("The finite space length 0..223 x 8 sequence-counter states is enumerated completely (x payload fillings, x 3 frame-level "
              "formats) through the public encoders and decoders; the 143 encodable fast-packet definitions go through the unstubbed "
              "path; Hypothesis lists of consecutive messages cover counter wrap-around. Exhaustive on the (length, counter) grid, "
              "sampled on payload content.")
TECHNIQUE = "exhaustive enumeration (length x counter) with a frame-validity predicate and decode round trip; Hypothesis message lists"
RULE = ("(a) every length 0..223 x every counter state 0..7 x fillings through encode_ebyte/usb/yacht_devices of an encoder whose per-PGN "
        "payload function is stubbed on the instance (PGN 126720/130816 fallbacks); (b) every encodable fast-packet definition with "
        "generated accepted values through the unstubbed path; (c) Hypothesis lists of 1..20 consecutive messages over one or several streams, into decoders that are fresh or pre-loaded with 7..4100 abandoned partial messages, with and without real time passing between frames; (d) long runs on one decoder (2^18 and 2^20 frames quick, 2^22 thorough) in which idle streams (fresh or long unused keys) start a message on the (T-1)-th, T-th and (T+1)-th frame the decoder has seen, T = powers of two, round decimal numbers and multiples of 2^10..2^16 / 10^3..10^5; non-trivial = length on "
        "a frame boundary (<=6, 6+7k, 6+7k+-1, 223) or counter >= 6 or a list with wrap; distinct = (pgn, length, counter, filling, format)")
ASSUMPTIONS = [
    "arbitrary payload bytes are observable only through the BINARY field of the proprietary fallback definitions; payloads of >= 2 bytes "
    "therefore start with a header whose manufacturer code no sibling definition uses",
    "payload equality is checked on the little-endian integer (the decoder exposes fields, not a length) and fillings end in a non-zero byte",
]

FORMATS = ("ebyte", "usb", "yd")


def frames_of(enc, fmt, msg):
    if fmt == "ebyte":
        pk = enc.encode_ebyte(msg)
        return pk, [wire.ebyte_frame(p) for p in pk]
    if fmt == "usb":
        pk = enc.encode_usb(msg)
        return pk, [wire.usb_frame(p) for p in pk]
    pk = enc.encode_yacht_devices(msg)
    return pk, [wire.yd_frame(p) for p in pk]


def feed(dec, fmt, pk):
    if fmt == "ebyte":
        return dec.decode_tcp(pk)
    if fmt == "usb":
        return dec.decode_usb(pk)
    return dec.decode_yacht_devices_string("01:02:03.004 R " + pk.decode().strip())


def feed_claim(dec, fmt, src, unique):
    """An ISO address claim (PGN 60928) of address src arrives on the same link."""
    from .. import traffic
    i = wire.ident(60928, src, 255, 6)
    data = traffic.iso_name(unique, 137 + unique % 5).to_bytes(8, "little")
    try:
        if fmt == "ebyte":
            dec.decode_tcp(wire.ebyte(i, data))
        elif fmt == "usb":
            dec.decode_usb(wire.usb(i, data))
        else:
            dec.decode_yacht_devices_string("01:02:03.004 R " + wire.yd(i, data))
    except Exception:
        pass


def check_frames(frames, payload, prev_seq, pgn, src, dest, prio, tag):
    """Frame validity predicate. Returns (discrepancies, seq)."""
    out = []
    n = len(payload)
    exp_count = wire.n_frames(n)
    if len(frames) != exp_count:
        out.append((f"{tag}|frame-count", f"{len(frames)} frames for {n} bytes, expected {exp_count}"))
    seq = None
    body = b""
    for k, (ident, data) in enumerate(frames):
        if ident != wire.ident(pgn, src, dest, prio):
            out.append((f"{tag}|identifier", f"frame {k} identifier {ident:#x}"))
        if len(data) > 8:
            out.append((f"{tag}|frame-size", f"frame {k} carries {len(data)} data bytes"))
        if not data:
            out.append((f"{tag}|empty-frame", f"frame {k} has no data"))
            continue
        s, c = data[0] >> 5, data[0] & 0x1F
        if seq is None:
            seq = s
        elif s != seq:
            out.append((f"{tag}|sequence-counter", f"frame {k} has sequence counter {s}, first frame {seq}"))
        if c != k:
            out.append((f"{tag}|frame-counter", f"frame {k} has frame counter {c}"))
        if k == 0:
            if len(data) < 2 or data[1] != n:
                out.append((f"{tag}|announced-length", f"first frame announces {data[1] if len(data) > 1 else None}, payload has {n}"))
            body += data[2:]
        else:
            body += data[1:]
            if len(data) == 1:
                out.append((f"{tag}|frame-without-data", f"frame {k} carries no payload byte"))
    if body != payload:
        out.append((f"{tag}|chunks", f"concatenated chunks {body.hex()} != payload {payload.hex()}"))
    if prev_seq is not None and seq == prev_seq:
        out.append((f"{tag}|sequence-repeat", f"sequence counter {seq} equals the previous message's"))
    return out, seq


def preload(dec, n):
    """n abandoned partial messages (first frame only) on n other streams of this decoder."""
    for j in range(n):
        i = wire.ident(126720, j % 250, 10 + j // 250, 3)
        dec.decode_tcp(wire.ebyte(i, bytes([(j % 8) << 5, 20, 1, 2, 3, 4, 5, 6])))


def one_message(ctx, enc, holder, dec, fmt, pgn, payload, prev_seq, src=7, dest=255, prio=3, stub=True, warp=0):
    """Encode one stubbed message, validate frames, decode them. -> (discrepancies, seq)"""
    holder["payload"] = payload
    if ((pgn >> 8) & 0xFF) >= 240:
        dest = 255
    msg = fp.prop_message(pgn, src, dest, prio)
    case = {"pgn": pgn, "payload_hex": payload.hex(), "format": fmt, "prev_seq": prev_seq}
    tag = f"C03|{fmt}"
    try:
        pk, frames = frames_of(enc, fmt, msg)
    except Exception as e:
        return [(f"{tag}|encode-error|{type(e).__name__}", f"encoder failed for a {len(payload)}-byte payload: {type(e).__name__}: {e}", case)], prev_seq
    res, seq = check_frames(frames, payload, prev_seq, pgn, src, dest, prio, tag)
    out = [(b, w, case) for b, w in res]
    got = []
    for i, p in enumerate(pk):
        if warp == "claims":
            # the sender (or the addressee) claims its address just before the message and again, with another NAME, inside it
            if i == 0:
                feed_claim(dec, fmt, src if len(payload) % 2 else min(dest, 253), 1 + len(payload) % 7)
            elif i == 1:
                feed_claim(dec, fmt, src if len(payload) % 2 else min(dest, 253), 11 + len(payload) % 7)
        elif isinstance(warp, str) and warp.startswith("wall") and i:
            # the system time is stepped between two frames (monotonic time is not)
            from ..common import CLOCK
            CLOCK.step_wall(float(warp[4:]))
        elif i and warp:
            from ..common import CLOCK
            CLOCK.warp(warp)
        try:
            r = feed(dec, fmt, p)
        except Exception as e:
            out.append((f"{tag}|decode-error", f"frame {i}: {type(e).__name__}: {e}", case))
            return out, seq
        got.append(r)
    early = [i for i, r in enumerate(got[:-1]) if r is not None]
    if early:
        out.append((f"{tag}|early-delivery", f"message returned at frame(s) {early} of {len(got)}", case))
    last = got[-1] if got else None
    if last is None:
        out.append((f"{tag}|not-delivered", f"no message after the last of {len(got)} frames", case))
    else:
        if last.id != fp.fallback_id(pgn):
            out.append((f"{tag}|definition", f"decoded as {last.id}", case))
        else:
            back = fp.recon(last)
            if back != int.from_bytes(payload, "little"):
                out.append((f"{tag}|payload", f"decoded payload {back:#x} != sent {payload.hex()}", case))
        if (last.PGN, last.source, last.destination, last.priority) != (pgn, src, dest, prio):
            out.append((f"{tag}|addressing", f"decoded addressing {(last.PGN, last.source, last.destination, last.priority)}", case))
    return out, seq


def fillings(n, pgn, quick, seed):
    """Payloads of length n."""
    import random
    out = []
    if n < 2:
        out.append(bytes([0xA5] * n))
        if not quick:
            out += [bytes(n), bytes([0xFF] * n)]
        return out
    hdr = fp.header(pgn, n * 7 + seed)
    out.append(hdr + bytes((i + 1) & 0xFF or 1 for i in range(n - 2)))
    if not quick:
        out.append(hdr + bytes(n - 2))
        out.append(hdr + b"\xff" * (n - 2))
        r = random.Random(seed * 1000 + n)   # enumeration plan derived from VERIF_SEED only
        out.append(hdr + bytes(r.randrange(256) for _ in range(n - 3)) + bytes([r.randrange(1, 256)]) if n > 2 else hdr)
    return out


def boundary(n):
    return n <= 7 or n >= 222 or (n - 6) % 7 in (0, 1, 6)


def _grid(ctx: Ctx, item):
    from nmea2000.decoder import NMEA2000Decoder
    from nmea2000.encoder import NMEA2000Encoder
    lengths, quick, seed = item
    for n in lengths:
        for k in range(8):
            for fmt in FORMATS:
                pgn = fp.PROP_PGNS[(n + k) % 2]
                for fi, payload in enumerate(fillings(n, pgn, quick, seed)):
                    holder = {}
                    enc = fp.stub_encoder(NMEA2000Encoder(), holder)
                    dec = NMEA2000Decoder()
                    warp = 0
                    if k == 7 and fmt == "ebyte" and fi == 0 and n % 16 == 5:
                        # the receiving decoder is not fresh: abandoned partial messages of other streams, time passing between frames
                        preload(dec, [255, 256, 257, 1023, 1024, 1025, 2047, 2048, 300, 4100, 64, 65, 511, 512][(n // 16) % 14])
                        warp = [0, 2.0, 0, 90.0][(n // 16) % 4]
                        ctx.klass("grid_decoder_with_history")
                    elif k == 6 and fi == 0 and n % 4 == 1:
                        # address claims of the sender around / inside the message, or the system time stepped between frames
                        warp = ["claims", "wall-0.8", "claims", "wall-7200"][(n // 4) % 4]
                        ctx.klass("grid_with_claims_or_wall_clock_step")
                    prev = None
                    # reach counter state k by encoding k messages first (through the public API)
                    for j in range(k):
                        holder["payload"] = b"\x01"
                        _, fr = frames_of(enc, fmt, fp.prop_message(pgn, 7, 255, 3))
                        prev = fr[0][1][0] >> 5
                    res, _ = one_message(ctx, enc, holder, dec, fmt, pgn, payload, prev, warp=warp)
                    ctx.count()
                    if boundary(n) or k >= 6:
                        ctx.nontrivial_extra += 1
                    for b, w, c in res:
                        c["counter_state"] = k
                        ctx.report(b, w, c)
                    if n in (0, 6, 7, 223) and k == 7 and fmt == "ebyte" and fi == 0:
                        ctx.sample({"length": n, "counter_state": k, "format": fmt, "payload_hex": payload.hex()[:40]})
    ctx.klass("grid_cases", len(lengths) * 8 * len(FORMATS))


def _defs(ctx: Ctx, item):
    from nmea2000.decoder import NMEA2000Decoder
    from nmea2000.encoder import NMEA2000Encoder
    keys, n_hyp = item
    db = canboat.db()
    for key in keys:
        d = db.by_key[key]

        def check(p, fmt, src, prio, p_next=None, d=d):
            payload, nbytes, classes = p
            ctx.count()
            dec0 = NMEA2000Decoder()
            try:
                m = dec0.decode_basic_string(gen.basic_string(d.pgn, payload, nbytes, src=src, prio=prio), already_combined=True)
            except Exception:
                ctx.klass("defs_rejected")
                return []
            if m is None or m.id != d.id:
                return []
            ctx.klass("defs_roundtrip")
            ctx.nt((d.key, payload, fmt))
            case = {"definition": d.key, "payload_hex": payload.to_bytes(nbytes, "little").hex(), "format": fmt, "source": src, "priority": prio}
            enc = NMEA2000Encoder()
            try:
                pk, frames = frames_of(enc, fmt, m)
            except ValueError as e:
                ctx.klass("defs_encode_refused")
                return []
            data = b"".join(f[1][2:] if i == 0 else f[1][1:] for i, f in enumerate(frames))
            res, _ = check_frames(frames, data, None, d.pgn, src, m.destination if ((d.pgn >> 8) & 0xFF) < 240 else 255, prio, f"C03|defs|{fmt}")
            out = [(b, w, case) for b, w in res]
            # the first frame announces the payload length of the DEFINITION (where the database fixes it), not whatever the codec emitted
            announced = frames[0][1][1] if frames and len(frames[0][1]) > 1 else None
            if d.length is not None and d.fixed_layout and announced is not None and announced != d.length:
                out.append((f"C03|defs|{fmt}|announced-length|{d.key}", f"first frame announces {announced} bytes ({len(frames)} frames), the definition's payload has {d.length}", case))
            dec = NMEA2000Decoder()
            got = []
            for p in pk:
                try:
                    got.append(feed(dec, fmt, p))
                except Exception as e:
                    out.append((f"C03|defs|{fmt}|decode-error", f"the decoder rejects frame {len(got)} of {len(pk)} of the encoder's own frames: {type(e).__name__}: {e}", case))
                    return out
            if any(g is not None for g in got[:-1]) or got[-1] is None:
                out.append((f"C03|defs|{fmt}|delivery", f"delivery pattern {[g is not None for g in got]}", case))
            else:
                g = got[-1]
                if g.id != m.id or [(f.id, f.value, f.raw_value) for f in g.fields] != [(f.id, f.value, f.raw_value) for f in m.fields]:
                    diff = [f.id for f, h in zip(g.fields, m.fields) if (f.value, f.raw_value) != (h.value, h.raw_value)]
                    out.append((f"C03|defs|{fmt}|values|{d.key}", f"fields changed by encode/decode: {diff}", case))
            # a periodic sender keeps ONE message object, writes the new values into it and sends it again through the same encoder
            if p_next is not None and not out:
                try:
                    m2 = NMEA2000Decoder().decode_basic_string(gen.basic_string(d.pgn, p_next[0], p_next[1], src=src, prio=prio), already_combined=True)
                except Exception:
                    m2 = None
                if m2 is not None and m2.id == m.id and len(m2.fields) == len(m.fields):
                    for f_old, f_new in zip(m.fields, m2.fields):
                        f_old.value, f_old.raw_value = f_new.value, f_new.raw_value
                    try:
                        _, fr_again = frames_of(enc, fmt, m)
                        _, fr_fresh = frames_of(NMEA2000Encoder(), fmt, m2)
                    except ValueError:
                        fr_again = fr_fresh = None
                    if fr_again is not None:
                        ctx.klass("defs_in_place_update")
                        d_again = b"".join(f[1][2:] if i == 0 else f[1][1:] for i, f in enumerate(fr_again))
                        d_fresh = b"".join(f[1][2:] if i == 0 else f[1][1:] for i, f in enumerate(fr_fresh))
                        if d_again != d_fresh:
                            out.append((f"C03|defs|{fmt}|in-place-update|{d.key}", f"message object updated in place and sent again through the same encoder: frames "
                                        f"carry {d_again.hex()[:60]}, a new message with these values is sent as {d_fresh.hex()[:60]}",
                                        dict(case, next_hex=p_next[0].to_bytes(p_next[1], "little").hex())))
            return out

        from hypothesis import strategies as st
        # messages the application builds from legal values (not obtained from the decoder): segmented, fed back frame by frame, they come
        # back as the same definition with the same values
        from . import c09
        from fractions import Fraction

        def built(asg, fmt, d=d):
            fields, removed, change, alt = asg
            if removed is not None or any(a["expect"][0] in ("reject", "either") or a.get("outside_db") for a in fields):
                return []
            m = c09.build_message(d, fields)
            case = {"definition": d.key, "built": [[repr(a["value"]), repr(a["raw_value"])] for a in fields], "format": fmt}
            try:
                pk, frames = frames_of(NMEA2000Encoder(), fmt, m)
                text = NMEA2000Encoder().encode_actisense(m)
            except ValueError:
                return []
            parts = text.split(" ")
            payload = int.from_bytes(bytes.fromhex(parts[2]), "little") if len(parts) > 2 else 0
            if db.select(d.pgn, payload) is not d:
                return []
            ctx.count()
            ctx.klass("defs_built_messages")
            dec = NMEA2000Decoder()
            got = []
            for p in pk:
                try:
                    got.append(feed(dec, fmt, p))
                except Exception as e:
                    return [(f"C03|built|{fmt}|decode-error", f"{d.key}: the decoder rejects frame {len(got)} of {len(pk)}: {type(e).__name__}: {e}", case)]
            if any(g is not None for g in got[:-1]) or got[-1] is None or got[-1].id != d.id:
                return [(f"C03|built|{fmt}|delivery|{d.key}", f"delivery pattern {[g is not None for g in got]}, last result "
                         f"{got[-1].id if got and got[-1] is not None else None}", case)]
            out = []
            for f, a, g in zip(d.fields, fields, got[-1].fields):
                if a["expect"][0] == "raw" and f.type == "LOOKUP" and g.raw_value != a["expect"][1]:
                    out.append((f"C03|built-lookup|{fmt}|{d.key}/{f.id}", f"{f.id}: sent {a['value']!r} / {a['raw_value']!r} (code {a['expect'][1]}), received {g.value!r} / {g.raw_value!r}", case))
                if a["expect"][0] == "num" and a.get("target") is not None and f.type in ("NUMBER", "PGN", "DURATION") and not a.get("tol"):
                    if g.value is None or abs(Fraction(g.value) - a["target"]) > f.res / 2 * (1 + Fraction(1, 10 ** 6)) + abs(a["target"]) * Fraction(1, 10 ** 12):
                        out.append((f"C03|built|{fmt}|value|{d.key}/{f.id}", f"{f.id}: sent {float(a['target'])!r}, received {g.value!r}", case))
            return out
        ctx.hyp(built, c09.assignment(d), st.sampled_from(FORMATS), max_examples=max(4, n_hyp // 2), name="defs-built", shrink=False, rounds=2)
        ctx.hyp(check, gen.payloads(d, mode="accepted", extra_bytes=False), st.sampled_from(FORMATS), st.integers(0, 253), st.integers(0, 7),
                gen.payloads(d, mode="accepted", extra_bytes=False), max_examples=n_hyp, name="defs")


def _lists(ctx: Ctx, item):
    from hypothesis import strategies as st
    from nmea2000.decoder import NMEA2000Decoder
    from nmea2000.encoder import NMEA2000Encoder
    n_hyp, = item

    lens = st.one_of(st.integers(0, 30), st.sampled_from([0, 5, 6, 7, 12, 13, 14, 20, 27, 222, 223]), st.integers(0, 223))

    @st.composite
    def msgs(draw):
        n = draw(st.integers(1, 20))
        pgn = draw(st.sampled_from(fp.PROP_PGNS))
        mixed = draw(st.booleans())
        out = []
        for _ in range(n):
            # one sender's encoder serves several streams: its counter is shared, so two messages of ONE stream may carry the
            # same counter when 8k-1 messages of other streams lie in between
            p_ = draw(st.sampled_from(fp.PROP_PGNS)) if mixed else pgn
            out.append((p_, draw(st.sampled_from([7, 7, 8])) if mixed else 7, draw(lens.flatmap(lambda L, p_=p_: fp.payload(p_, L, L)))))
        return pgn, out

    def check(pm, fmt, hist, warp):
        pgn, payloads = pm
        holder = {}
        enc = fp.stub_encoder(NMEA2000Encoder(), holder)
        dec = NMEA2000Decoder()
        preload(dec, hist)
        if hist or warp:
            ctx.klass("list_decoder_with_history_or_warp")
        prev = None
        out = []
        ctx.count()
        if len(payloads) > 8:
            ctx.nt((pgn, tuple(map(str, payloads)), fmt))
            ctx.klass("list_with_wrap")
        else:
            ctx.klass("list_short")
        for i, (p_, src_, p) in enumerate(payloads):
            res, prev = one_message(ctx, enc, holder, dec, fmt, p_, p, prev, src=src_, warp=warp)
            for b, w, c in res:
                c = dict(c, list_hex=[[a, b_, x.hex()] for a, b_, x in payloads], index=i, history=hist, warp=warp)
                out.append((b + "|list", w, c))
        return out

    ctx.hyp(check, msgs(), st.sampled_from(FORMATS), st.sampled_from([0, 0, 0, 7, 255, 256, 1023, 1024, 1025]), st.sampled_from([0, 0, 1.5, 600.0, "claims", "claims", "wall-0.8", "wall-3600", "wall3600"]),
            max_examples=n_hyp, name="lists")


def run(ctx: Ctx):
    # long runs: messages that start on the 2^e-th (+-1) frame a decoder sees, on streams idle since the previous such point
    from .. import longrun
    pmap(ctx, longrun.ticks, [(x, "C03") for x in longrun.limits(ctx)])
    pmap(ctx, _grid, [(c, ctx.quick, ctx.seed) for c in chunks(list(range(224)), 32)])
    ctx.exhaustive = True
    ctx.notes["exhaustive_space"] = "length 0..223 x counter state 0..7 x 3 frame formats" + (" x 1 filling" if ctx.quick else " x 4 fillings")
    db = canboat.db()
    fast = [d.key for d in db.defs if d.encodable and d.fast]
    ctx.notes["encodable_fast_definitions"] = len(fast)
    pmap(ctx, _defs, [(c, 6 if ctx.quick else 200) for c in chunks(fast, 16)])
    n_lists = 200 if ctx.quick else 5000
    pmap(ctx, _lists, [(max(1, n_lists // 16),)] * 16)


def replay(ctx: Ctx, case):
    if "ticks" in case:
        from .. import longrun
        return longrun.replay(case, "C03")
    from nmea2000.decoder import NMEA2000Decoder
    from nmea2000.encoder import NMEA2000Encoder
    if "definition" in case:
        holder = {}
        sub = Ctx(ctx.pid)
        sub.known_open = {}
        d = canboat.db().by_key[case["definition"]]
        data = bytes.fromhex(case["payload_hex"])

        def fake(check, *a, **k):
            nxt = bytes.fromhex(case["next_hex"]) if case.get("next_hex") else None
            holder["out"] = check((int.from_bytes(data, "little"), len(data), []), case["format"], case["source"], case["priority"],
                                  (int.from_bytes(nxt, "little"), len(nxt), []) if nxt is not None else None)
        sub.hyp = fake
        _defs(sub, ([d.key], 1))
        return holder.get("out", [])
    fmt = case["format"]
    payloads = [(x[0], x[1], bytes.fromhex(x[2])) if isinstance(x, list) else (case["pgn"], 7, bytes.fromhex(x)) for x in case["list_hex"]] if "list_hex" in case else None
    holder = {}
    enc = fp.stub_encoder(NMEA2000Encoder(), holder)
    dec = NMEA2000Decoder()
    pgn = case["pgn"]
    out = []
    prev = None
    if payloads is None:
        for j in range(case.get("counter_state", 0)):
            holder["payload"] = b"\x01"
            _, fr = frames_of(enc, fmt, fp.prop_message(pgn, 7, 255, 3))
            prev = fr[0][1][0] >> 5
        res, _ = one_message(ctx, enc, holder, dec, fmt, pgn, bytes.fromhex(case["payload_hex"]), prev)
        return res
    preload(dec, case.get("history", 0))
    for p_, src_, p in payloads:
        res, prev = one_message(ctx, enc, holder, dec, fmt, p_, p, prev, src=src_, warp=case.get("warp", 0))
        out += [(b + "|list", w, c) for b, w, c in res]
    return out
