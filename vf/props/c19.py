"""C19 - send() writes the encoder's packets contiguously; bad messages are harmless."""
from __future__ import annotations

import asyncio
import itertools

from hypothesis import strategies as st

from .. import aio, canboat, gen
from ..common import Ctx, pmap

LEVEL = "exploration"
LEVEL_TEXT = ("Concurrency testing of send() on the four unmodified clients over an in-memory transport whose flow control is scripted: 1..4 "
              "concurrent send() tasks (single- and multi-frame messages, unencodable messages) under generated back-pressure patterns "
              "(pause after write i for j loop steps) and write failures at packet k. The byte stream seen by the gateway must be, for "
              "some order of the messages, the concatenation of their complete packet sequences; unencodable messages must leave link, "
              "state and attempt count untouched; a failing write must lead to DISCONNECTED and a new attempt.")
TECHNIQUE = "schedule-controlled concurrency testing (Hypothesis-generated flow-control patterns) with a contiguity oracle on the written byte stream"
RULE = ("client x 1..4 concurrent sends {single-frame, multi-frame, missing field, out-of-range value, unknown PGN} x pauses {(write index, "
        "steps)} x optional write failure at write k or gateway EOF during a paused write followed by a second wave of sends on the new link; oracle: written bytes == concatenation, for some order, of encoder packet sequences "
        "(consecutive sequence counters); unencodable => no bytes, same state, same attempt count; write failure => DISCONNECTED + new "
        "attempt; on every link the packets of one message stay together and nothing is written to a link after a newer one was opened; non-trivial = >= 2 concurrent multi-frame sends with >= 1 pause, or an unencodable message, or a write failure; "
        "distinct = (client, messages, pauses, failure)")
ASSUMPTIONS = [
    "network-map seeding is off so that only the test's sends reach the link",
    "expected packets come from a fresh NMEA2000Encoder whose sequence counter is set to the value the client's encoder must have at that point",
    "back-pressure is delivered through StreamReaderProtocol.pause_writing/resume_writing, as asyncio transports do",
]

FAST = ["129029/gnssPositionData", "127237/headingTrackControl", "127494/electricDriveInformation", "127496/tripParametersVessel", "127506/dcDetailedStatus"]
SINGLE = ["127250/vesselHeading", "59904/isoRequest", "130306/windData"]


def make_message(kind_, key, src):
    """-> (message, encodable: bool)"""
    from nmea2000.message import NMEA2000Field, NMEA2000Message
    d = canboat.db().by_key[key]
    m0 = gen.benign_message(d)
    fields = [NMEA2000Field(id=f.id, name=f.name, value=f.value, raw_value=f.raw_value) for f in m0.fields]
    m = NMEA2000Message(PGN=d.pgn, id=d.id, fields=fields, source=src, destination=255, priority=3)
    if kind_ == "ok":
        return m, True
    if kind_ == "missing_field":
        m.fields = m.fields[:-1]
        return m, False
    if kind_ == "out_of_range":
        for f, fd in zip(m.fields, d.fields):
            if fd.type in ("NUMBER", "PGN"):
                f.value = f.raw_value = 1e30
                return m, False
        m.fields[0].raw_value = m.fields[0].value = -5     # no number field: a negative lookup / reserved value
        return m, False
    if kind_ == "bad_lookup_name":
        for f, fd in zip(m.fields, d.fields):
            if fd.type == "LOOKUP" and fd.match is None:
                f.raw_value = None
                f.value = "no such entry"
                return m, False
        m.fields = m.fields[:-1]
        return m, False
    if kind_ == "no_encoder_field_type":
        # a definition with a field type the generated encoders do not support (STRING_FIX): Product Information
        d2 = canboat.db().by_key["126996/productInformation"]
        m2 = gen.benign_message(d2)
        return NMEA2000Message(PGN=d2.pgn, id=d2.id, fields=list(m2.fields), source=src, destination=255, priority=6), False
    if kind_.startswith("odd_destination"):
        # an addressing value outside 0..255: sendable exactly when a (fresh) encoder turns it into packets
        from nmea2000.encoder import NMEA2000Encoder
        m.destination = {"odd_destination_neg": -1, "odd_destination_256": 256, "odd_destination_big": 1 << 24, "odd_destination_huge": 1 << 40}[kind_]
        try:
            e = NMEA2000Encoder()
            e.encode_ebyte(m), e.encode_usb(m), e.encode_yacht_devices(m)
            return m, True
        except Exception:
            return m, False
    if kind_.startswith("range_"):
        # header values outside what the identifier can carry (priority 3 bits, source 8 bits): cannot be sent, by specification
        attr, val = {"range_priority_8": ("priority", 8), "range_priority_9": ("priority", 9), "range_priority_neg": ("priority", -1),
                     "range_source_256": ("source", 256), "range_source_neg": ("source", -1)}[kind_]
        setattr(m, attr, val)
        return m, False
    if kind_.startswith("header_"):
        # a header attribute that is missing or of the wrong type (e.g. a message parsed from JSON with "source": null)
        attr, val = {"header_source_none": ("source", None), "header_priority_none": ("priority", None), "header_priority_str": ("priority", "3")}[kind_]
        setattr(m, attr, val)
        m.tag_source = src            # (the oracle tells messages apart by source address)
        from nmea2000.encoder import NMEA2000Encoder
        try:
            e = NMEA2000Encoder()
            e.encode_ebyte(m), e.encode_usb(m), e.encode_yacht_devices(m)
            return m, True
        except Exception:
            return m, False
    if kind_ == "unknown_pgn":
        m.PGN = 99999
        m.id = "noSuchPgn"
        return m, False
    raise AssertionError(kind_)


@st.composite
def cases(draw, client):
    n = draw(st.integers(1, 4))
    msgs = []
    for i in range(n):
        k = draw(st.sampled_from(["ok", "ok", "ok", "ok", "ok", "missing_field", "out_of_range", "unknown_pgn", "bad_lookup_name", "no_encoder_field_type",
                                   "odd_destination_neg", "odd_destination_256", "odd_destination_big", "odd_destination_huge",
                                   "header_source_none", "header_priority_none", "header_priority_str",
                                   "range_priority_8", "range_priority_9", "range_priority_neg", "range_source_256", "range_source_neg"]))
        key = draw(st.sampled_from(FAST + FAST + SINGLE + (["59904/isoRequest"] * 4 if k.startswith("odd") else [])))
        msgs.append((k, key, i + 1))
    pauses = draw(st.lists(st.tuples(st.integers(1, 30), st.integers(1, 12)), min_size=0, max_size=6))
    fail = draw(st.one_of(st.none(), st.none(), st.integers(1, 25)))
    stagger = draw(st.lists(st.sampled_from([0, 0, 0, 1, 3]), min_size=n, max_size=n))
    if draw(st.integers(0, 4)) == 0:
        # the gateway stops sending (EOF on the read side) while a send() waits in drain(): the client reconnects mid-send;
        # a second wave of sends starts on the new link while the first wave is still parked
        wave2 = [("ok", draw(st.sampled_from(FAST + SINGLE)), 10 + j) for j in range(draw(st.integers(0, 2)))]
        fail = ("eof", draw(st.integers(1, 6)), draw(st.sampled_from([30, 60, 120])), wave2)
    if not isinstance(fail, tuple) and n >= 2 and draw(st.integers(0, 5)) == 0:
        # the application gives up on one of the sends (timeout wrapper, shutdown of one producer): its task is cancelled while the
        # first message holds the link under back-pressure - a cancelled send() may have written nothing, a prefix or everything
        fail = ("cancel", draw(st.integers(0, n - 1)), draw(st.integers(1, 12)))
        pauses = [(1, 14)] + [p for p in pauses if p[0] != 1]
    return msgs, pauses, fail, stagger


def expected_packets(client, m, counter):
    from nmea2000.encoder import NMEA2000Encoder
    e = NMEA2000Encoder()
    e.sequence_counter = counter
    pk = {"ebyte": e.encode_ebyte, "yd": e.encode_yacht_devices, "waveshare": e.encode_usb}[client](m)
    # the next message of a sender must carry the next 3-bit sequence counter (decided here, not read back from the encoder)
    fast = any(d.fast for d in canboat.db().by_pgn.get(m.PGN, []))
    return pk, (counter + 1) % 8 if fast else counter


def run_case(client, msgs, pauses, fail, stagger):
    s = aio.Session(client)
    built = [make_message(*m) for m in msgs]
    if isinstance(fail, int) and (fail + len(msgs)) % 2:
        # the application's status handler takes its time (0.3 virtual s) - e.g. while the client tells it about the lost link
        s.status_mode = "slow"

    async def main(s):
        c = s.make_client()
        await c.connect()
        await asyncio.sleep(0.1)
        link = s.gw.link
        s.base_writes = s.gw.total_writes              # the serial client writes a configuration packet on connect
        s.base_bytes = len(link.bytes_written())
        s.attempts_before = len(s.gw.attempts)
        s.state_before = c.state.name
        for i, j in pauses:
            s.gw.write_actions.setdefault(s.base_writes + i, ("pause", j))
        if isinstance(fail, (tuple, list)) and fail[0] == "cancel":
            pass
        elif isinstance(fail, (tuple, list)):
            s.gw.write_actions[s.base_writes + fail[1]] = ("pause_eof", fail[2])
        elif fail is not None:
            import errno
            excs = [ConnectionResetError("write failed"), BrokenPipeError(errno.EPIPE, "broken pipe"), TimeoutError(errno.ETIMEDOUT, "timed out"),
                    OSError(errno.EIO, "input/output error"), OSError(errno.ENETDOWN, "network is down")]
            try:
                import serial
                excs.append(serial.SerialException("device reports readiness to read but returned no data"))
            except Exception:
                pass
            s.gw.write_actions[s.base_writes + fail] = ("fail", excs[(fail + len(msgs)) % len(excs)])
            # the write usually fails because the gateway is away for a while: its first 0..2 answers after the failure are refusals
            s.refusals = (fail // 2) % 3
            s.gw.plan = [("refuse",)] * s.refusals + [("accept",)]
        tasks = []
        for (m, _), lag in zip(built, stagger):
            for _ in range(lag):
                await asyncio.sleep(0)
            tasks.append(asyncio.ensure_future(c.send(m)))
        if isinstance(fail, (tuple, list)) and fail[0] == "cancel":
            s.at_step(s.loop.steps + fail[2], lambda: tasks[fail[1]].cancel())
        if isinstance(fail, (tuple, list)) and fail[0] != "cancel" and len(fail) > 3 and fail[3]:
            for _ in range(400):
                if len(s.gw.links) > 1 and c.state.name == "CONNECTED":
                    break
                await asyncio.sleep(0)
            if len(s.gw.links) > 1:
                s.gw.write_actions[s.gw.total_writes + 1] = ("pause", 25)
                s.gw.write_actions[s.gw.total_writes + 2] = ("pause", 10)
                for w in fail[3]:
                    tasks.append(asyncio.ensure_future(c.send(make_message(*w)[0])))
                    await asyncio.sleep(0)
        await asyncio.gather(*tasks, return_exceptions=True)
        s.state_after_sends = c.state.name
        s.attempts_after_sends = len(s.gw.attempts)
        await asyncio.sleep(3.0 if not getattr(s, "refusals", 0) else 6.0)
        s.final_state = c.state.name
        s.status_names = [x for _, x in s.status_trace]
        s.after = None
        if isinstance(fail, int) and client != "actisense" and s.gw.links and s.gw.links[0].dead and c.state.name == "CONNECTED":
            # after the failed write and the reconnection: one more message - it goes out on the (one) new link, complete
            s.links_before_after = len(s.gw.links)
            extra = make_message("ok", SINGLE[0], 200)[0]
            n0 = len(s.gw.link.bytes_written())
            await c.send(extra)
            await asyncio.sleep(1.0)
            s.after = (extra, s.gw.link.bytes_written()[n0:], c.state.name, len(s.gw.links))
        await c.close()
    outcome = s.run(main)
    return outcome, s, built


def evaluate(client, msgs, pauses, fail, stagger, outcome, s, built):
    case = {"client": client, "messages": [list(m) for m in msgs], "pauses": [list(p) for p in pauses], "fail": fail, "stagger": stagger}
    tag = f"C19|{client}"
    if outcome != "ok":
        return [(f"{tag}|{outcome}", f"session ended with {outcome}: {s.errors[:1]}", case)]
    out = []
    link0 = s.gw.links[0]
    # whatever happens, nothing may be written to a link after the client has opened a newer one
    for a, b in zip(s.gw.links, s.gw.links[1:]):
        late = [st_ for _, st_, _ in a.written if st_ > b.up_step]
        if late:
            out.append((f"{tag}|wrote-to-abandoned-link", f"{len(late)} write(s) went to link {a.index} after link {b.index} had been opened (loop steps {late[:4]}, "
                        f"new link at step {b.up_step})", case))
    # on every link the packets of one message stay together (messages are told apart by their source address)
    for l in s.gw.links:
        srcs = []
        data = l.bytes_written()
        if client == "ebyte":
            srcs = [data[i + 4] for i in range(0, len(data) - 12, 13)]
        elif client == "waveshare":
            srcs = [data[i + 5] for i in range(0, len(data) - 19, 20) if data[i + 2] == 0x01]
        elif client == "yd":
            srcs = [int(line.split()[0], 16) & 0xFF for line in data.decode("ascii", "ignore").split("\r\n") if line.strip()]
        seen, prev_src = set(), None
        for x in srcs:
            if x != prev_src and x in seen:
                out.append((f"{tag}|interleaved-on-link", f"link {l.index}: packets of message from source {x} are split by another message's packets "
                            f"(source sequence {srcs[:24]})", case))
                break
            seen.add(x)
            prev_src = x
    if isinstance(fail, (tuple, list)) and fail[0] == "cancel":
        # nothing failed on the link: the connection stays as it was, and every message that was NOT cancelled is on the link completely
        if s.state_after_sends != "CONNECTED" or s.attempts_after_sends != s.attempts_before or "DISCONNECTED" in s.status_names or len(s.gw.links) > 1:
            out.append((f"{tag}|connection-disturbed|cancelled-send", f"a waiting send() was cancelled, no write failed, but state {s.state_before} -> {s.state_after_sends}, "
                        f"attempts {s.attempts_before} -> {s.attempts_after_sends}, status trace {s.status_names}", case))
        data = link0.bytes_written()[s.base_bytes:]
        if client == "ebyte":
            srcs = [data[i + 4] for i in range(0, len(data) - 12, 13)]
        elif client == "waveshare":
            srcs = [data[i + 5] for i in range(0, len(data) - 19, 20) if data[i + 2] == 0x01]
        elif client == "yd":
            srcs = [int(line.split()[0], 16) & 0xFF for line in data.decode("ascii", "ignore").split("\r\n") if line.strip()]
        else:
            srcs = []
        if client != "actisense":
            for i, ((k, key, src_), (m, ok)) in enumerate(zip(msgs, built)):
                if not ok or i == fail[1] or not isinstance(getattr(m, "source", None), int):
                    continue
                want = len(expected_packets(client, m, 0)[0])
                if srcs.count(m.source) != want:
                    out.append((f"{tag}|cancelled-send-harms-another", f"send() number {fail[1]} was cancelled; message {i} (source {m.source}) has {srcs.count(m.source)} of its "
                                f"{want} packets on the link", case))
        return out
    if isinstance(fail, (tuple, list)):
        if len(s.gw.links) > 1 and "DISCONNECTED" not in s.status_names:
            out.append((f"{tag}|eof-not-reported", "the gateway closed its side during a send but DISCONNECTED was never reported", case))
        return out
    written = link0.bytes_written()[s.base_bytes:]
    n_writes_link0 = link0.write_count - s.base_writes
    failed = fail is not None and fail <= s.gw.total_writes - s.base_writes and any(True for _ in [0])
    fail_hit = fail is not None and link0.dead
    if client == "actisense":
        # format without an encoder: nothing can be sent, nothing may happen
        if written:
            out.append((f"{tag}|bytes-written", f"{len(written)} bytes written by a client that has no encoder", case))
        if s.state_after_sends != s.state_before or s.attempts_after_sends != s.attempts_before or "DISCONNECTED" in s.status_names:
            out.append((f"{tag}|unsendable-disturbs-connection", f"send() on the Actisense client (no encoder): state {s.state_before} -> {s.state_after_sends}, "
                        f"attempts {s.attempts_before} -> {s.attempts_after_sends}, status trace {s.status_names}", case))
        return out
    # candidate orders
    idx = list(range(len(built)))
    ok_any = False
    best = None
    for perm in itertools.permutations(idx):
        counter = 0
        stream = b""
        for i in perm:
            m, enc_ok = built[i]
            if not enc_ok:
                continue
            pk, counter = expected_packets(client, m, counter)
            stream += b"".join(pk)
        if fail_hit:
            if stream.startswith(written) or written.startswith(stream):
                ok_any = True
                break
        elif stream == written:
            ok_any = True
            break
        best = stream
    all_bad = all(not ok for _, ok in built)
    if not ok_any:
        # classify: interleaving (same multiset of packets) vs wrong content
        size = {"ebyte": 13, "waveshare": 20}.get(client)
        def split(b):
            if size:
                return sorted(b[i:i + size] for i in range(0, len(b), size))
            return sorted(b.split(b"\r\n"))
        what = "interleaved" if best is not None and split(best) == split(written) else "wrong-bytes"
        out.append((f"{tag}|{what}", f"bytes on the link are not the concatenation of the messages' packet sequences in any order "
                    f"({len(written)} bytes written, {len(best or b'')} expected)", case))
    if all_bad or (not fail_hit):
        if all_bad and written:
            out.append((f"{tag}|unencodable-wrote-bytes", f"only unencodable messages were sent but {len(written)} bytes reached the link", case))
        if not fail_hit and (s.state_after_sends != "CONNECTED" or s.attempts_after_sends != s.attempts_before or "DISCONNECTED" in s.status_names):
            kinds = sorted({m[0] for m in msgs})
            out.append((f"{tag}|connection-disturbed|{'+'.join(k for k in kinds if k != 'ok') or 'ok'}", f"no write failed but state {s.state_before} -> {s.state_after_sends}, attempts "
                        f"{s.attempts_before} -> {s.attempts_after_sends}, status trace {s.status_names}", case))
    if fail_hit and getattr(s, "after", None) is not None:
        extra, got_bytes, state_after, links_after = s.after
        want = b"".join(expected_packets(client, extra, 0)[0])
        if s.links_before_after != 2:
            out.append((f"{tag}|write-failure-reconnects-twice", f"one failing write, but {s.links_before_after} connections were opened (status trace {s.status_names})", case))
        if got_bytes != want or state_after != "CONNECTED" or links_after != s.links_before_after:
            out.append((f"{tag}|message-after-recovery-lost", f"a message sent after the reconnection: {len(got_bytes)} of {len(want)} bytes on the current link, state "
                        f"{state_after}, {links_after} connections", case))
    if fail_hit:
        if client != "actisense" and s.final_state != "CONNECTED":
            out.append((f"{tag}|write-failure-never-recovers", f"write {fail} failed, the gateway refused {getattr(s, 'refusals', 0)} attempt(s) and then accepts: "
                        f"6 s later the client is {s.final_state} after {len(s.gw.attempts) - s.attempts_before} attempt(s) (status {s.status_names})", case))
        if "DISCONNECTED" not in s.status_names:
            out.append((f"{tag}|write-failure-not-reported", f"write {fail} failed but DISCONNECTED was never reported (status {s.status_names})", case))
        if len(s.gw.attempts) <= s.attempts_before:
            out.append((f"{tag}|write-failure-no-reconnect", f"write {fail} failed but no new connection attempt was made", case))
    return out


def _work(ctx: Ctx, item):
    client, n = item

    def one(c):
        msgs, pauses, fail, stagger = c
        ctx.count()
        outcome, s, built = run_case(client, msgs, pauses, fail, stagger)
        multi = sum(1 for (k, key, _), (_, ok) in zip(msgs, built) if ok and key in FAST)
        bad = any(not ok for _, ok in built)
        n_pauses_hit = sum(1 for i, _ in pauses if i <= s.gw.total_writes - getattr(s, "base_writes", 0))
        if isinstance(fail, tuple) and fail[0] == "cancel":
            ctx.klass("send_cancelled")
        elif isinstance(fail, tuple):
            ctx.klass("eof_during_send")
        if (multi >= 2 and n_pauses_hit) or bad or (fail is not None and s.gw.links and s.gw.links[0].dead) or client == "actisense":
            ctx.nt((client, repr(msgs), repr(pauses), fail, repr(stagger)))
        if multi >= 2 and n_pauses_hit:
            ctx.klass("concurrent_multiframe_with_backpressure")
        if bad:
            ctx.klass("with_unencodable")
        if fail is not None and s.gw.links and s.gw.links[0].dead:
            ctx.klass("write_failure_hit")
        ctx.klass("writes", s.gw.total_writes)
        if ctx.evaluations % 25 == 1:
            ctx.sample({"client": client, "messages": msgs, "pauses": pauses, "fail": fail, "writes": s.gw.total_writes, "status": [x for _, x in s.status_trace]})
        return evaluate(client, msgs, pauses, fail, stagger, outcome, s, built)

    ctx.hyp(one, cases(client), max_examples=n, name="send-" + client)


def _all_definitions(ctx: Ctx, item):
    """Every encodable definition with each of its fields removed in turn (and once complete), sent through one EByte client on one healthy
    link: an incomplete message writes nothing and leaves the connection alone, the complete one writes the encoder's packets."""
    from nmea2000.encoder import NMEA2000Encoder
    from nmea2000.message import NMEA2000Field, NMEA2000Message
    keys, = item
    db = canboat.db()
    s = aio.Session("ebyte")
    plan = []
    for key in keys:
        d = db.by_key[key]
        m0 = gen.benign_message(d)
        if m0 is None:
            continue
        for removed in [None] + list(range(len(m0.fields))):
            fl = [NMEA2000Field(id=f.id, name=f.name, value=f.value, raw_value=f.raw_value) for i, f in enumerate(m0.fields) if i != removed]
            plan.append((key, removed, NMEA2000Message(PGN=d.pgn, id=d.id, fields=fl, source=1, destination=255, priority=3)))
        # ... and with each field in turn carrying a value one step outside what its bits can hold (too wide / below the lowest code)
        for i, fd in enumerate(d.fields):
            if fd.match is not None or fd.bits is None or i >= len(m0.fields):
                continue
            bad = []
            if fd.type in ("LOOKUP", "RESERVED"):
                bad = [1 << fd.bits, -1]
            elif fd.type in ("NUMBER",) and fd.bits <= 48:
                off = float(fd.offset) if fd.offset is not None else 0.0
                res = float(fd.res)
                if fd.signed and fd.offset is None:
                    bad = [(1 << (fd.bits - 1)) * res * 1.0 + res, -((1 << (fd.bits - 1)) + 2) * res]
                else:
                    bad = [((1 << fd.bits) + 1) * res + off, off - 2 * res]
            for k, v in enumerate(bad):
                fl = [NMEA2000Field(id=f.id, name=f.name, value=(v if j == i else f.value), raw_value=(v if j == i else f.raw_value)) for j, f in enumerate(m0.fields)]
                plan.append((key, f"{i}:{'wide' if k == 0 else 'low'}", NMEA2000Message(PGN=d.pgn, id=d.id, fields=fl, source=1, destination=255, priority=3)))
    results = []

    async def main(s):
        c = s.make_client()
        await c.connect()
        await asyncio.sleep(0.1)
        for key, removed, m in plan:
            n0 = len(s.gw.link.bytes_written())
            links0, tr0 = len(s.gw.links), len(s.status_trace)
            await c.send(m)
            await asyncio.sleep(0)
            results.append((key, removed, m, s.gw.link.bytes_written()[n0:], len(s.gw.links) - links0, [x for _, x in s.status_trace[tr0:]], c.state.name))
            if c.state.name != "CONNECTED":
                for _ in range(200):
                    if c.state.name == "CONNECTED":
                        break
                    await asyncio.sleep(0.05)
        await c.close()
    outcome = s.run(main, max_steps=4_000_000)
    enc = NMEA2000Encoder()
    for key, removed, m, written, new_links, trace, state in results:
        ctx.count()
        ctx.nontrivial_extra += 1
        case = {"all_definitions": key, "removed": removed}
        if removed is None:
            try:
                want = b"".join(enc.encode_ebyte(m))
            except Exception:
                continue
            # (the client's encoder and this one advance their fast-packet counters in step: every complete message is sent through both)
            if written != want:
                ctx.report(f"C19|ebyte|all-definitions|wrong-bytes", f"{key}: {len(written)} bytes written, the encoder produces {len(want)}", case)
        elif isinstance(removed, str):
            i, how = removed.split(":")
            fld = m.fields[int(i)]
            if written:
                ctx.report(f"C19|ebyte|all-definitions|unrepresentable-value-written", f"{key}: field {fld.id} = {fld.raw_value!r} (one step {'beyond its width' if how == 'wide' else 'below its lowest code'}): "
                           f"{len(written)} bytes were written", case)
            if new_links or trace or state != "CONNECTED":
                ctx.report(f"C19|ebyte|all-definitions|connection-disturbed", f"{key}: field {fld.id} = {fld.raw_value!r}: status {trace}, {new_links} new connection(s), state {state}", case)
        else:
            fid = m.fields[removed].id if removed < len(m.fields) else "last"
            if written:
                ctx.report(f"C19|ebyte|all-definitions|incomplete-message-written", f"{key} without its field number {removed}: {len(written)} bytes were written", case)
            if new_links or trace or state != "CONNECTED":
                ctx.report(f"C19|ebyte|all-definitions|connection-disturbed", f"{key} without its field number {removed}: status {trace}, {new_links} new connection(s), state {state}", case)
    if outcome != "ok":
        ctx.report(f"C19|ebyte|all-definitions|{outcome}", f"session ended with {outcome}", {"all_definitions": keys[0], "removed": None})
    ctx.klass("all_definitions_sends", len(results))


def run(ctx: Ctx):
    enc_keys = [d.key for d in canboat.db().defs if d.encodable]
    pmap(ctx, _all_definitions, [(enc_keys[i::16],) for i in range(16)])
    n = 100 if ctx.quick else 8000
    pmap(ctx, _work, [(k, n) for k in aio.CLIENT_KINDS for _ in range(4)])


def replay(ctx: Ctx, case):
    if "all_definitions" in case:
        sub = Ctx(ctx.pid)
        sub.known_open = {}
        _all_definitions(sub, ([case["all_definitions"]],))
        return [(b, v["what"], v["case"]) for b, v in sub.found.items() if v["case"].get("removed") == case.get("removed")]
    msgs = [tuple(m) for m in case["messages"]]
    pauses = [tuple(p) for p in case["pauses"]]
    fail = tuple(case["fail"]) if isinstance(case["fail"], list) else case["fail"]
    if isinstance(fail, tuple) and len(fail) > 3:
        fail = fail[:3] + ([tuple(w) for w in fail[3]],)
    outcome, s, built = run_case(case["client"], msgs, pauses, fail, case["stagger"])
    return evaluate(case["client"], msgs, pauses, fail, case["stagger"], outcome, s, built)
