"""C20 - serial (USB) stream resynchronises after noise with bounded buffering."""
from __future__ import annotations

import asyncio
import gc
import types

from hypothesis import strategies as st

from .. import aio, wire
from ..common import Ctx, pmap

LEVEL = "exploration"
LEVEL_TEXT = ("The unmodified Waveshare client runs on an in-memory serial link; streams are built from a grammar (valid packets, corrupted "
              "packets, truncated packets, noise runs that are marker-free / contain markers / end in half a marker, 0..5000 bytes, in the "
              "thorough tier a marker-free run of 1-5 MB) and delivered under generated segmentations. The oracle is the construction of "
              "the stream itself, not a second parser: which valid packets may be missing is derived from what precedes them. The bytes "
              "held back by the client are measured by walking its object graph after every chunk.")
TECHNIQUE = "grammar-based stream generation with a construction-derived oracle + object-graph measurement of retained bytes (Hypothesis; atheris target in thorough)"
RULE = ("stream = sequence of {valid packet (also with checksum 0xAA), corrupted packet, truncated packet, noise run (marker-free, also 0x55-led | with markers | ending in AA, also AA-fill)} + systematic boundary scenarios x "
        "segmentation; oracle: delivered messages are a subsequence (in order) of the valid packets; a valid packet may be missing only if "
        "it is the first valid packet after a run that contains a marker, a truncated packet or ends in a half marker; nothing else is "
        "delivered; bytes reachable from the client object graph at quiescence <= baseline + 256; non-trivial = stream with >= 1 noise run "
        "followed by >= 2 valid packets; distinct = (stream, segmentation)")
ASSUMPTIONS = [
    "valid packets carry PGN 127250 with a running SID so that every delivery is attributable; their bytes 2..19 contain no AA 55",
    "noise is re-drawn at construction when a false AA 55 window would by chance carry a valid checksum (1/256), so 'never delivered' is decidable",
    "retained bytes = total length of bytes/bytearray objects reachable from the client object (gc.get_referents walk; modules, classes, "
    "functions, loggers and the decoder's static tables excluded), measured when the client is idle",
]

MARK = b"\xaa\x55"


def valid_packet(n):
    """n-th valid packet: heading message with SID n (mod 250), source chosen so that no AA 55 appears after the header."""
    for src in range(1, 250):
        for prio in (2, 3, 6):
            data = bytes([n % 250, (n * 7) % 200, 0x20 + n % 64, 0, 0, 0, 0, 0xFD])
            pk = wire.usb(wire.ident(127250, src, 255, prio), data)
            if MARK not in pk[2:] and pk[19] != 0xAA:
                return pk
    raise AssertionError


def valid_packet_aa(n):
    """A valid packet whose checksum byte (the last byte on the wire) is 0xAA - half a marker at the very end of a packet."""
    for src in range(1, 250):
        for b1 in range(256):
            data = bytes([n % 250, b1, 0x20 + n % 64, 0, 0, 0, 0, 0xFD])
            pk = wire.usb(wire.ident(127250, src, 255, 2), data)
            if pk[19] == 0xAA and MARK not in pk[2:]:
                return pk
    raise AssertionError


@st.composite
def noise(draw, kind, maxlen):
    n = draw(st.one_of(st.integers(0, 40), st.integers(0, maxlen)))
    if kind == "free" and draw(st.integers(0, 3)) == 0:
        # marker-free noise that starts with the second half of a marker (right after a packet ending in 0xAA this is NOT a marker:
        # the AA belongs to the packet)
        tail = bytearray(draw(st.binary(min_size=0, max_size=min(n, 30))))
        i = tail.find(MARK)
        while i != -1:
            tail[i + 1] = 0x54
            i = tail.find(MARK)
        if tail and tail[-1] == 0xAA:
            tail[-1] = 0xAB
        return b"\x55" + bytes(tail)
    if kind == "free":
        b = bytearray(draw(st.binary(min_size=n, max_size=n)))
        i = b.find(MARK)
        while i != -1:
            b[i + 1] = 0x54
            i = b.find(MARK)
        if b and b[-1] == 0xAA:
            b[-1] = 0xAB
        return bytes(b)
    if kind == "half" and draw(st.integers(0, 2)) == 0:
        # marker-free noise in which every read is likely to end in 0xAA (half a marker): AA fill / 00 AA 00 AA ...
        unit = draw(st.sampled_from([b"\xaa", b"\x00\xaa", b"\x01\x02\x03\xaa", b"\xaa\xaa\x54\xaa"]))
        return (unit * (n // len(unit) + 1))[: max(len(unit), n - n % len(unit))]
    if kind == "half":
        b = bytearray(draw(st.binary(min_size=n, max_size=n)))
        i = b.find(MARK)
        while i != -1:
            b[i + 1] = 0x54
            i = b.find(MARK)
        return bytes(b) + b"\xaa"
    # with markers
    parts = []
    for _ in range(draw(st.integers(1, 3))):
        L = draw(st.sampled_from([0, 3, 30, 300, 1000, max(1, maxlen // 3)]))
        parts.append(draw(st.binary(min_size=L, max_size=L)))
        parts.append(MARK)
    tail = draw(st.sampled_from([0, 1, 5, 17, 18, 25]))
    parts.append(draw(st.binary(min_size=tail, max_size=tail)))
    return b"".join(parts)


@st.composite
def streams(draw, maxnoise=5000):
    n_items = draw(st.integers(2, 14))
    items = []     # (kind, bytes)
    k = 0
    for _ in range(n_items):
        kind = draw(st.sampled_from(["valid", "valid", "valid", "valid_aa", "corrupt", "truncated", "free", "free", "half", "marked"]))
        if kind in ("valid", "valid_aa"):
            items.append(("valid", valid_packet(k) if kind == "valid" else valid_packet_aa(k), k))
            k += 1
        elif kind == "corrupt":
            pk = bytearray(valid_packet(200 + k))
            pos = draw(st.integers(2, 19))
            pk[pos] ^= draw(st.integers(1, 255))
            if MARK in pk[2:]:
                pk = bytearray(valid_packet(200 + k))
                pk[19] ^= 0x01
            items.append(("corrupt", bytes(pk), None))
        elif kind == "truncated":
            pk = valid_packet(220 + k)
            cut = draw(st.integers(2, 19))
            lose = draw(st.integers(1, 20 - cut))
            items.append(("truncated", pk[:cut] + pk[cut + lose:], None))
        else:
            items.append((kind, draw(noise({"free": "free", "half": "half", "marked": "marked"}[kind], maxnoise)), None))
    # make sure no false window carries a valid checksum (else "never delivered" would be undecidable)
    stream = b"".join(b for _, b, _ in items)
    starts = set()
    pos = 0
    for kind, b, _ in items:
        if kind == "valid":
            starts.add(pos)
        pos += len(b)
    ok = True
    i = stream.find(MARK)
    while i != -1:
        if i not in starts and i + 20 <= len(stream) and sum(stream[i + 2:i + 19]) & 0xFF == stream[i + 19]:
            ok = False
            break
        i = stream.find(MARK, i + 1)
    cuts_mode = draw(st.sampled_from(["whole", "random", "small", "bytewise_head", "items", "items"]))
    n = len(stream)
    if cuts_mode == "whole" or n < 2:
        cuts = []
    elif cuts_mode == "items":
        # a read ends exactly where an item ends (the buffer is measured with, e.g., a marker and a few bytes pending)
        cuts, pos = [], 0
        for _, b, _ in items[:-1]:
            pos += len(b)
            if 0 < pos < n:
                cuts.append(pos)
        cuts = sorted(set(cuts))
    elif cuts_mode == "random":
        cuts = sorted(set(draw(st.lists(st.integers(1, n - 1), max_size=15))))
    elif cuts_mode == "small":
        step = draw(st.integers(1, 37))
        cuts = list(range(step, n, step))[:400]
    else:
        cuts = list(range(1, min(n, 120)))
    return items, cuts, ok


def expectation(items):
    """-> list of (sid, may_be_missing)"""
    out = []
    dirty = False      # something since the last delivered/lost valid packet that may swallow the next one
    live_aa = False    # the previous item was a valid packet ending in 0xAA that may itself have been swallowed: its last byte is
                       # then still in the resynchronising stream and forms a marker with noise that starts with 0x55
    for kind, b, k in items:
        if kind == "valid":
            out.append((k % 250, dirty))
            live_aa = dirty and b[-1:] == b"\xaa"
            dirty = False
            continue
        if kind == "free":
            if live_aa and b[:1] == b"\x55":
                dirty = True
        elif kind == "corrupt":
            pass           # a 20-byte window with a bad checksum is dropped as a whole
        else:
            dirty = True
        if b:
            live_aa = False
    return out


def retained_bytes(client):
    """Total length of bytes-like objects reachable from the client (see ASSUMPTIONS)."""
    import logging
    seen = set()
    todo = [client]
    total = 0
    skip_types = (types.ModuleType, type, types.FunctionType, types.BuiltinFunctionType, types.MethodType, types.CodeType, logging.Logger,
                  logging.Manager, asyncio.AbstractEventLoop, types.FrameType, aio.Session, aio.Gateway, aio.Link)   # harness objects are not the client
    while todo:
        o = todo.pop()
        if id(o) in seen:
            continue
        seen.add(id(o))
        if isinstance(o, skip_types):
            continue
        if isinstance(o, (bytes, bytearray, memoryview)):
            total += len(o)
            continue
        if isinstance(o, (str, int, float, bool, type(None))):
            continue
        if isinstance(o, asyncio.Future) and not isinstance(o, asyncio.Task):
            continue
        if len(seen) > 200000:
            break
        todo.extend(gc.get_referents(o))
    return total


def run_case(items, cuts, measure=True, big_noise=0, gap=(0, 0.0)):
    stream = b"".join(b for _, b, _ in items)
    s = aio.Session("waveshare")
    s.sizes = []

    async def main(s):
        c = s.make_client()
        await c.connect()
        await asyncio.sleep(0.05)
        link = s.gw.link
        s.baseline = retained_bytes(c) if measure else 0
        if big_noise:
            blob = bytes((i * 7 + 3) % 251 for i in range(4096)).replace(MARK, b"\xaa\x54")
            if big_noise % 2:
                blob = b"\x00\xaa" * 2048            # odd sizes select the half-marker-at-every-read-end variant
            fed = 0
            while fed < big_noise:
                link.feed(blob)
                fed += len(blob)
                await asyncio.sleep(0.01)
                if measure and (fed // len(blob)) % 16 == 0:
                    s.sizes.append(retained_bytes(c) - s.baseline)
        pos = 0
        for ci, cut in enumerate(list(cuts) + [len(stream)]):
            if cut > pos:
                if gap[0] and ci % gap[0] == gap[0] - 1:
                    # a quiet bus: time passes (event-loop clock and process clocks) before the next bytes arrive
                    from ..common import CLOCK
                    CLOCK.warp(gap[1])
                    await asyncio.sleep(gap[1])
                link.feed(stream[pos:cut])
                pos = cut
                await asyncio.sleep(0.01)
                if measure:
                    s.sizes.append(retained_bytes(c) - s.baseline)
        await asyncio.sleep(1.0)
        if measure:
            s.sizes.append(retained_bytes(c) - s.baseline)
        s.final_state = c.state.name
        await c.close()
    outcome = s.run(main, max_steps=2_000_000)
    return outcome, s


def evaluate(items, cuts, outcome, s, case):
    if outcome != "ok":
        return [(f"C20|{outcome}", f"session ended with {outcome}: {s.errors[:1]}", case)]
    out = []
    exp = expectation(items)
    got = []
    for _, m in s.received:
        sid = next((f.raw_value for f in m.fields if f.id == "sid"), None)
        got.append((m.PGN, sid))
    # delivered must be an in-order subsequence of exp; skipped entries must be allowed to be missing
    gi = 0
    lost_forbidden = []
    for sid, may_miss in exp:
        if gi < len(got) and got[gi] == (127250, sid):
            gi += 1
        elif not may_miss:
            lost_forbidden.append(sid)
    if gi < len(got):
        out.append(("C20|unexpected-delivery", f"delivered message {got[gi]} (#{gi} of {len(got)}) is not the next valid packet of the stream: either noise / a bad-checksum "
                    f"packet was delivered or the order changed (expected SIDs {[e[0] for e in exp][:12]}, got {[g[1] for g in got][:12]})", case))
    elif lost_forbidden:
        out.append(("C20|packet-lost", f"valid packets with SID {lost_forbidden[:6]} were not delivered although nothing that could swallow them precedes them "
                    f"(got {[g[1] for g in got][:12]} of {[e[0] for e in exp][:12]})", case))
    if s.sizes and max(s.sizes) > 256:
        out.append(("C20|buffer-unbounded", f"client retains up to {max(s.sizes)} bytes beyond its idle baseline after a read (stream of {sum(len(b) for _, b, _ in items)} bytes)", case))
    if s.final_state != "CONNECTED":
        out.append(("C20|link-dropped", f"client state {s.final_state} after a stream without link faults", case))
    return out


def to_case(items, cuts, gap=(0, 0.0)):
    return {"items": [[k, b.hex(), n] for k, b, n in items], "cuts": cuts, "gap": list(gap)}


def _work(ctx: Ctx, item):
    n, maxnoise = item

    def one(c, gap_every, gap_len):
        items, cuts, ok = c
        gap = (gap_every, gap_len)
        if not ok:
            ctx.klass("construction_rejected_chance_checksum")
            return []
        ctx.count()
        kinds = [k for k, _, _ in items]
        nontrivial = any(k in ("free", "half", "marked") and sum(1 for kk in kinds[i + 1:] if kk == "valid") >= 2 for i, k in enumerate(kinds))
        if nontrivial:
            ctx.nt((tuple(b for _, b, _ in items), tuple(cuts)))
        for k in set(kinds):
            ctx.klass("stream_with_" + k)
        outcome, s = run_case(items, cuts, gap=gap)
        if gap_every:
            ctx.klass("stream_with_quiet_gaps")
        ctx.klass("delivered", len(s.received))
        if ctx.evaluations % 20 == 1:
            ctx.sample({"items": [(k, len(b)) for k, b, _ in items], "cuts": len(cuts), "delivered": len(s.received), "max_retained": max(s.sizes or [0])})
        return evaluate(items, cuts, outcome, s, to_case(items, cuts, gap))

    ctx.hyp(one, streams(maxnoise), st.sampled_from([0, 0, 0, 1, 2, 3, 5]), st.sampled_from([1.5, 5.0, 60.0]), max_examples=n, name="serial")


def _scenarios(ctx: Ctx, item):
    """Systematic boundary scenarios: packet (plain / checksum 0xAA) - short marker-free noise - packets, under segmentations that
    put a read boundary exactly at the item borders."""
    noises = [b"", b"\x55", b"\x55\x00\x01", b"\xaa", b"\x55" * 5, b"\x00\xaa", b"\x55" + bytes(range(1, 18)), b"\x55\xaa", b"\x54\x55\x56",
              bytes(19), b"\x55" + bytes(18), b"\x55" + bytes(30)]
    part, = item
    for first_aa in (False, True):
        for ni, nz in enumerate(noises):
            if ni % 2 != part:
                continue
            kind = "half" if nz.endswith(b"\xaa") else "free"
            items = [("valid", valid_packet_aa(0) if first_aa else valid_packet(0), 0), (kind, nz, None),
                     ("valid", valid_packet(1), 1), ("valid", valid_packet_aa(2), 2), (kind, nz, None), ("valid", valid_packet(3), 3)]
            stream = b"".join(b for _, b, _ in items)
            borders, pos = [], 0
            for _, b, _ in items[:-1]:
                pos += len(b)
                if 0 < pos < len(stream) and pos not in borders:
                    borders.append(pos)
            mids = sorted({b_ - 9 for b_ in borders if b_ > 9} | {b_ + 7 for b_ in borders if b_ + 7 < len(stream)})
            for cuts, gap in (([], (0, 0.0)), (borders, (0, 0.0)), (borders[:1], (0, 0.0)), (list(range(1, len(stream))), (0, 0.0)),
                              ([b + 1 for b in borders if b + 1 < len(stream)], (0, 0.0)),
                              # reads that end inside a packet, each after a quiet gap
                              (mids, (1, 1.5)), (mids, (2, 30.0)), (borders, (1, 2.0))):
                ctx.count()
                ctx.nontrivial_extra += 1
                outcome, s_ = run_case(items, cuts, gap=gap)
                for b, w, c in evaluate(items, cuts, outcome, s_, to_case(items, cuts, gap)):
                    ctx.report(b, w, c)
    ctx.klass("boundary_scenarios")


def _big(ctx: Ctx, item):
    size, = item
    items = [("valid", valid_packet(0), 0), ("valid", valid_packet(1), 1)]
    ctx.count()
    ctx.nontrivial_extra += 1
    outcome, s = run_case(items, [], big_noise=size)
    ctx.klass("big_marker_free_run_bytes", size)
    for b, w, c in evaluate(items, [], outcome, s, dict(to_case(items, []), big_noise=size)):
        ctx.report(b, w, c)


def run_two_links(first: bytes, second: bytes, cut_first=None, send_first=False):
    """The stream `first` arrives (optionally cut), the adapter disappears (end of stream), the client reconnects and `second` arrives on
    the new link in one read per 7 bytes. send_first: the application sends a heading message before anything arrives.
    -> (outcome, session)"""
    s = aio.Session("waveshare", connect_plan=[("accept",), ("accept",), ("accept",)])

    async def main(s):
        c = s.make_client()
        await c.connect()
        await asyncio.sleep(0.05)
        if send_first:
            from nmea2000.message import NMEA2000Field, NMEA2000Message
            m = NMEA2000Message(PGN=127250, id="vesselHeading", source=1, destination=255, priority=2, fields=[
                NMEA2000Field(id="sid", value=7, raw_value=7), NMEA2000Field(id="heading", value=1.0, raw_value=1.0),
                NMEA2000Field(id="deviation", value=0.0, raw_value=0.0), NMEA2000Field(id="variation", value=0.0, raw_value=0.0),
                NMEA2000Field(id="reference", value="Magnetic", raw_value=1), NMEA2000Field(id="reserved_58", value=63, raw_value=63)])
            await c.send(m)
            await asyncio.sleep(0.05)
            s.sent = s.gw.link.bytes_written()[-20:]
        link = s.gw.link
        for piece in ([first[:cut_first], first[cut_first:]] if cut_first else [first]):
            if piece:
                link.feed(piece)
                await asyncio.sleep(0.01)
        if second is not None:
            link.eof()
            for _ in range(4000):
                if s.gw.link is not link and c.state.name == "CONNECTED":
                    break
                await asyncio.sleep(0.05)
            await asyncio.sleep(0.2)
            for i in range(0, len(second), 7):
                s.gw.link.feed(second[i:i + 7])
                await asyncio.sleep(0.01)
        await asyncio.sleep(1.0)
        s.final_state = c.state.name
        await c.close()
    outcome = s.run(main, max_steps=2_000_000)
    return outcome, s


def _links(ctx: Ctx, item=None):
    """(a) a read ends inside a packet, the adapter disappears, the client reconnects, the new stream starts with a little marker-free
    noise: every valid packet of the new link is delivered.  (b) the application sends a message and later receives byte-identical
    packets (another node sends the same values): they are delivered like any other."""
    n = 0
    for partial in (0, 1, 2, 7, 19):
        for noise_len in (0, 1, 5, 13, 19, 20, 33):
            first = valid_packet(0) + valid_packet(1)[:partial]
            nz = bytes((i * 37 + 11) % 251 for i in range(noise_len)).replace(b"\xaa", b"\xab")
            second = nz + valid_packet(2) + valid_packet(3) + valid_packet(4)
            outcome, s = run_two_links(first, second, cut_first=20 if partial else None)
            ctx.count()
            ctx.nontrivial_extra += 1
            n += 1
            got = [next((f.raw_value for f in m.fields if f.id == "sid"), None) for _, m in s.received]
            case = {"two_links": [partial, noise_len]}
            if outcome != "ok":
                ctx.report(f"C20|reconnect|{outcome}", f"session ended with {outcome}", case)
            elif got != [0, 2, 3, 4]:
                ctx.report("C20|reconnect|packet-lost", f"read ended {partial} bytes into a packet, reconnection, {noise_len} marker-free noise bytes, three valid packets: "
                           f"delivered SIDs {got}, expected [0, 2, 3, 4]", case)
    # (b) own transmission seen again on the receive side
    outcome, s = run_two_links(b"", None, send_first=True)
    sent = getattr(s, "sent", b"")
    outcome2, s2 = None, None
    if len(sent) == 20:
        stream = valid_packet(0) + sent + valid_packet(1) + sent
        outcome2, s2 = _send_then_receive(stream)
        ctx.count()
        ctx.nontrivial_extra += 1
        got = [next((f.raw_value for f in m.fields if f.id == "sid"), None) for _, m in s2.received]
        if outcome2 != "ok" or got != [0, 7, 1, 7]:
            ctx.report("C20|own-packet-received|packet-lost", f"the application sent a heading message and the same 20 bytes arrive twice in a clean stream: delivered SIDs {got}, "
                       f"expected [0, 7, 1, 7]", {"two_links": "echo"})
    ctx.klass("reconnect_scenarios", n)
    # (c) packets with a correct marker and checksum that the decoder cannot turn into a message (a PGN it has no single/fast codec for,
    # an empty fast-packet frame, an unknown PGN, a one-byte address claim): nothing is delivered for them, everything else is, the link stays
    odd = {"iso-transport-pgn-65240": wire.usb(wire.ident(65240, 9, 255, 6), bytes(range(8))),
           "empty-fast-packet-frame": wire.usb(wire.ident(129029, 9, 255, 3), b""),
           "one-byte-fast-packet-frame": wire.usb(wire.ident(129029, 9, 255, 3), b"\x20"),
           "unknown-pgn": wire.usb(wire.ident(65000, 9, 255, 3), bytes(8)),
           "out-of-range-value": wire.usb(wire.ident(127250, 9, 255, 2), bytes([1, 0xFE, 0xFF, 0, 0, 0, 0, 0xFF])),
           "proprietary-without-definition": wire.usb(wire.ident(65285, 9, 255, 3), (229 | 3 << 11 | 4 << 13).to_bytes(2, "little") + bytes(6))}
    for name, x in odd.items():
        stream = valid_packet(1) + x + valid_packet(2) + valid_packet(3)
        for piece in (len(stream), 20, 7, 1):
            s_ = aio.Session("waveshare", connect_plan=[("accept",), ("accept",)])

            async def main(s_, stream=stream, piece=piece):
                c = s_.make_client()
                await c.connect()
                await asyncio.sleep(0.05)
                for i in range(0, len(stream), piece):
                    s_.gw.link.feed(stream[i:i + piece])
                    await asyncio.sleep(0.01)
                await asyncio.sleep(1.0)
                s_.final_state = c.state.name
                await c.close()
            outcome = s_.run(main)
            ctx.count()
            ctx.nontrivial_extra += 1
            got = [next((f.raw_value for f in m.fields if f.id == "sid"), None) for _, m in s_.received if m.PGN == 127250]
            if outcome != "ok" or got != [1, 2, 3] or len(s_.gw.links) != 1 or getattr(s_, "final_state", None) != "CONNECTED":
                ctx.report(f"C20|undecodable-valid-packet|{name}", f"a packet with correct marker and checksum that decodes to no message ({name}) between valid packets, reads of "
                           f"{piece} bytes: delivered SIDs {got} (expected [1, 2, 3]), {len(s_.gw.links)} connection(s), state {getattr(s_, 'final_state', None)}",
                           {"two_links": "odd:" + name})


def _send_then_receive(stream):
    s = aio.Session("waveshare")

    async def main(s):
        from nmea2000.message import NMEA2000Field, NMEA2000Message
        c = s.make_client()
        await c.connect()
        await asyncio.sleep(0.05)
        m = NMEA2000Message(PGN=127250, id="vesselHeading", source=1, destination=255, priority=2, fields=[
            NMEA2000Field(id="sid", value=7, raw_value=7), NMEA2000Field(id="heading", value=1.0, raw_value=1.0),
            NMEA2000Field(id="deviation", value=0.0, raw_value=0.0), NMEA2000Field(id="variation", value=0.0, raw_value=0.0),
            NMEA2000Field(id="reference", value="Magnetic", raw_value=1), NMEA2000Field(id="reserved_58", value=63, raw_value=63)])
        await c.send(m)
        await asyncio.sleep(0.05)
        for i in range(0, len(stream), 20):
            s.gw.link.feed(stream[i:i + 20])
            await asyncio.sleep(0.01)
        await asyncio.sleep(1.0)
        s.final_state = c.state.name
        await c.close()
    return s.run(main), s


def _dual(ctx: Ctx, item):
    from .. import clientopts as co
    co.dual_pass(ctx, "C20", item[0])


def run(ctx: Ctx):
    pmap(ctx, _links, [None])
    pmap(ctx, _dual, [("waveshare",)])
    n = 40 if ctx.quick else 6000
    pmap(ctx, _work, [(n, 5000)] * 16)
    pmap(ctx, _scenarios, [(0,), (1,)])
    sizes = [200_000, 100_001] if ctx.quick else [1_000_000, 2_000_000, 5_000_000, 1_000_001]
    pmap(ctx, _big, [(sz,) for sz in sizes])
    if not ctx.quick:
        from ..fuzz import run_fuzz
        run_fuzz(ctx, "c20", seconds=240)


def replay(ctx: Ctx, case):
    if "two_links" in case:
        sub = Ctx(ctx.pid)
        sub.known_open = {}
        _links(sub)
        return [(b, v["what"], v["case"]) for b, v in sub.found.items() if v["case"]["two_links"] == case["two_links"]]
    if case.get("dual"):
        from .. import clientopts as co
        return co.dual_replay("C20", "C20", case)
    items = [(k, bytes.fromhex(h), n) for k, h, n in case["items"]]
    outcome, s = run_case(items, case["cuts"], big_noise=case.get("big_noise", 0), gap=tuple(case.get("gap", (0, 0.0))))
    return evaluate(items, case["cuts"], outcome, s, case)
