"""C13 - gateway clients recover from every connection fault and never stall the loop."""
from __future__ import annotations

import asyncio

from hypothesis import strategies as st

from .. import aio, wire
from ..common import Ctx, pmap

LEVEL = "fault_enumeration"
LEVEL_TEXT = ("Fault injection (with plain, slow, slow-on-CONNECTED and raising status callbacks) on the four unmodified clients over an in-memory transport and a virtual clock: sequences of episodes "
              "(connect refused k times / failing connect, end of stream, reset on read, error on write, garbage then end of stream, the "
              "EByte 'Sorry,Limited' block) are injected at generated loop steps or virtual times after each (re)connection - in the "
              "thorough tier at EVERY loop step of each session shape - and recovery, back-off, single receive path and loop liveness "
              "are checked by monitors evaluated at every loop step. Liveness is bounded in virtual time.")
TECHNIQUE = "fault injection at enumerated event-loop steps (thorough) / Hypothesis-chosen steps (quick) with recovery predicates on a virtual-clock asyncio harness"
RULE = ("client type x status callback {plain, slow, slow on CONNECTED, raising} x 1..3 episodes (initial refusals 0..12, fault kind, injection point = loop step k after the link is up or a virtual "
        "time offset, refusals before the gateway accepts again); oracle: DISCONNECTED reported after each fault on an established link, "
        "attempts continue with gaps > 0, non-decreasing, growing below the 10 s cap, bounded by 30 s; CONNECTED within 45 virtual s of "
        "acceptance and a frame fed afterwards is delivered; <= 1 read in flight at every loop step; heartbeat >= 90 %, no reader "
        "returning > 1000 times within one loop step; non-trivial = >= 1 fault after the first successful connect or >= 2 refusals; "
        "distinct = (client, script)")
ASSUMPTIONS = [
    "'for as long as needed' is checked for up to 12 consecutive refusals / 200 virtual seconds per episode",
    "faults are delivered through asyncio's documented protocol callbacks (eof_received, connection_lost(exc), pause/resume_writing)",
    "a SIGALRM wall-clock cap is only a safety net (exit 2)",
]

FAULTS = ("eof", "reset", "write_error", "garbage_eof", "sorry", "sorry_reset_send")


def valid_packet(kind, src=5, sid=1):
    i = wire.ident(127250, src, 255, 2)
    data = bytes([sid, 0x10, 0x27, 0, 0, 0, 0, 0xFD])
    if kind == "ebyte":
        return wire.ebyte(i, data)
    if kind == "waveshare":
        return wire.usb(i, data)
    if kind == "yd":
        return (wire.yd(i, data) + "\r\n").encode()
    return (wire.actisense(127250, src, 255, 2, data) + "\r\n").encode()


def claim_packet(kind, src=5):
    """ISO address claim of the probe's sender (needed when the client builds a network map: unclaimed senders are withheld)."""
    from .. import traffic
    i = wire.ident(60928, src, 255, 6)
    data = traffic.iso_name(4711, 137).to_bytes(8, "little")
    if kind == "ebyte":
        return wire.ebyte(i, data)
    if kind == "waveshare":
        return wire.usb(i, data)
    if kind == "yd":
        return (wire.yd(i, data) + "\r\n").encode()
    return (wire.actisense(60928, src, 255, 6, data) + "\r\n").encode()


def garbage(kind):
    if kind == "ebyte":
        return bytes(range(7))                 # a partial 13-byte block
    if kind == "waveshare":
        return b"\x01\x02\xaa\x55\x01\x02" + bytes(5)
    return b"this is not a frame\r\npartial line without end"


@st.composite
def scripts(draw, kind):
    n = draw(st.integers(1, 3))
    eps = []
    for _ in range(n):
        kinds = [f for f in FAULTS if f not in ("sorry", "sorry_reset_send") or kind == "ebyte"]
        if kind == "actisense":
            kinds = [f for f in kinds if f != "write_error"]   # the Actisense client cannot send (C19)
        eps.append({"fault": draw(st.sampled_from(kinds)),
                    "at": draw(st.one_of(st.tuples(st.just("step"), st.integers(0, 40)),
                                         st.tuples(st.just("time"), st.sampled_from([0.0, 0.005, 0.5, 3.0])))),
                    "mid_packet": draw(st.booleans()),
                    "refusals": draw(st.sampled_from([0, 0, 1, 2, 3, 5, 8, 12])),
                    "connect_error": draw(st.sampled_from(CONNECT_ERRORS))})
    return {"initial_refusals": draw(st.sampled_from([0, 0, 1, 2, 4, 7, 12])), "episodes": eps, "initial_error": draw(st.sampled_from(CONNECT_ERRORS)),
            "network_map": draw(st.sampled_from([False, False, True])),
            "status_mode": draw(st.sampled_from(["plain", "plain", "slow", "slow_connected", "raise"]))}


CONNECT_ERRORS = [False, True, "gai_noname", "gai_again", "timeout", "reset", "slow_refuse", "slow_accept", "eperm"]


def failing_attempts(how, n):
    """Connect plan: n failing attempts of the given kind, then the gateway accepts."""
    import errno
    import socket
    last = ("accept",)
    if how is False or how is None:
        one = ("refuse",)
    elif how is True:
        one = ("error", OSError(errno.EHOSTUNREACH, "no route to host (simulated)"))
    elif how == "gai_noname":
        one = ("error", socket.gaierror(socket.EAI_NONAME, "Name or service not known (simulated)"))
    elif how == "gai_again":
        one = ("error", socket.gaierror(socket.EAI_AGAIN, "Temporary failure in name resolution (simulated)"))
    elif how == "timeout":
        one = ("error", TimeoutError(errno.ETIMEDOUT, "connection timed out (simulated)"))
    elif how == "reset":
        one = ("error", ConnectionResetError(errno.ECONNRESET, "connection reset by peer (simulated)"))
    elif how == "eperm":
        one = ("error", PermissionError(errno.EACCES, "permission denied (simulated)"))
    elif how == "slow_refuse":
        one = ("refuse", 45.0)          # the attempt hangs for 45 s before it is refused
    else:
        one = ("refuse",)
        last = ("accept", 45.0)         # ... or before it is accepted
    return [one] * n + [last]


def run_script(kind, script):
    plan = failing_attempts(script.get("initial_error", False), script["initial_refusals"])
    netmap = bool(script.get("network_map"))
    s = aio.Session(kind, connect_plan=plan, client_kwargs={"build_network_map": True} if netmap else None)
    s.status_mode = script.get("status_mode", "plain")
    s.fault_times = []
    s.accept_times = []
    s.gw.on_link = lambda link: (s.accept_times.append(s.loop.time()), setattr(link, "up_step", s.loop.steps))
    s.probe_delivered = None
    s.notes = []

    async def wait_link(n, limit=None):
        if limit is None:
            # the retry delay is capped: every refusal costs at most ~10 virtual s
            limit = 300.0 + 60.0 * max([script["initial_refusals"]] + [ep["refusals"] for ep in script["episodes"]])
        t0 = s.loop.time()
        while len(s.gw.links) <= n:
            if s.loop.time() - t0 > limit:
                return None
            await asyncio.sleep(0.05)
        return s.gw.links[n]

    def inject(link, ep):
        if link.dead or link.transport.is_closing():
            s.notes.append("fault-on-dead-link")
            return
        s.fault_times.append((s.loop.time(), ep["fault"], link.index))
        s.gw.plan[:] = failing_attempts(ep["connect_error"], ep["refusals"])
        f = ep["fault"]
        if ep["mid_packet"] and f in ("eof", "reset"):
            link.feed(valid_packet(kind)[:7])
        if f == "eof":
            link.eof()
        elif f == "reset":
            link.reset()
        elif f == "garbage_eof":
            link.feed(garbage(kind))
            link.eof()
        elif f == "sorry":
            link.feed(b"Sorry,Limited")
        elif f == "sorry_reset_send":
            # the busy gateway says so and hangs up; the client's reader sits out its 30 s pause, meanwhile the application sends: only
            # the write side notices the dead link and starts the reconnection while the old receive task is still alive
            link.feed(b"Sorry,Limited")

            def then():
                from nmea2000.message import NMEA2000Field, NMEA2000Message
                link.reset()
                m = NMEA2000Message(PGN=59904, id="isoRequest", fields=[NMEA2000Field(id="pgn", value=60928, raw_value=60928)], source=0, destination=255, priority=6)
                s.loop.call_later(0.05, lambda: asyncio.ensure_future(s.client.send(m)))
            s.loop.call_later(0.05, then)
        elif f == "write_error":
            s.gw.write_actions[s.gw.total_writes + 1] = ("fail",)
            from nmea2000.message import NMEA2000Field, NMEA2000Message
            m = NMEA2000Message(PGN=59904, id="isoRequest", fields=[NMEA2000Field(id="pgn", value=60928, raw_value=60928)], source=0, destination=255, priority=6)
            asyncio.ensure_future(s.client.send(m))

    async def main(s):
        c = s.make_client()
        asyncio.ensure_future(c.connect())
        for t in script.get("companion_connects", ()):
            # another client of the same process (its own gateway accepts at once) connects while this one may be backing off
            comp = s.add_companion(kind)

            async def later(t=t, comp=comp):
                await asyncio.sleep(t)
                await comp.make_client().connect()
            asyncio.ensure_future(later())
        for n, ep in enumerate(script["episodes"]):
            link = await wait_link(n)
            if link is None:
                s.notes.append(f"no-link-{n}")
                break
            how, v = ep["at"]
            if how == "step":
                done = asyncio.Event()
                s.at_step(max(link.up_step + v, s.loop.steps + 1), lambda link=link, ep=ep: (inject(link, ep), done.set()))
                await done.wait()
            else:
                await asyncio.sleep(v)
                inject(link, ep)
        link = await wait_link(len(script["episodes"]))
        if link is not None:
            t0 = s.loop.time()
            while c.state.name != "CONNECTED" and s.loop.time() - t0 < 50:
                await asyncio.sleep(0.05)
            await asyncio.sleep(0.2)
            if netmap:
                link.feed(claim_packet(kind))
                await asyncio.sleep(0.2)
            before = len(s.received)
            link.feed(valid_packet(kind, sid=99))
            await asyncio.sleep(2.0)
            s.probe_delivered = len(s.received) > before
            # the link is healthy from here on: nothing may happen to it by itself (a left-over task of an earlier link, a stale timer)
            mark = (len(s.gw.attempts), len(s.status_trace), len(s.gw.links))
            await asyncio.sleep(40.0)
            s.quiet_after = (len(s.gw.attempts), len(s.status_trace), len(s.gw.links)) == mark
            s.after_trace = [x for _, x in s.status_trace[mark[1]:]]
            if s.quiet_after:
                before = len(s.received)
                if netmap:
                    s.gw.link.feed(claim_packet(kind))
                    await asyncio.sleep(0.2)
                    before = len(s.received)
                s.gw.link.feed(valid_packet(kind, sid=98))
                await asyncio.sleep(1.0)
                s.probe2_delivered = len(s.received) > before
        s.final_state = c.state.name
        await c.close()
        for comp in s.companions:
            if comp.client is not None:
                await comp.client.close()
        await asyncio.sleep(0.2)

    outcome = s.run(main, max_steps=400_000 + 400 * max([script["initial_refusals"]] + [ep["refusals"] for ep in script["episodes"]]))
    return outcome, s


def evaluate(kind, script, outcome, s):
    out = []
    case = {"client": kind, "script": script}
    eps = script["episodes"]
    if outcome == "spin":
        last = s.fault_times[-1][1] if s.fault_times else "none"
        return [(f"C13|{kind}|loop-monopolised|{last}", f"after fault '{last}' a reader returned > {aio.SPIN_LIMIT} times within one loop step: the receive loop spins without yielding", case)]
    if outcome != "ok":
        return [(f"C13|{kind}|{outcome}", f"session ended with {outcome}: {s.errors[:1]}", case)]
    # (5) heartbeat
    expect_hb = s.elapsed / 0.1
    if s.heartbeats < 0.9 * expect_hb - 2:
        out.append((f"C13|{kind}|heartbeat-starved", f"{s.heartbeats} heartbeats in {s.elapsed:.1f} virtual s", case))
    # (4) single receive path
    if s.max_reads_in_flight > 1:
        out.append((f"C13|{kind}|two-receive-paths", f"{s.max_reads_in_flight} reads in flight at the same time", case))
    # (1) DISCONNECTED reported after each fault on an established link
    for t, f, li in s.fault_times:
        later = [st_ for (ts, st_) in s.status_trace if ts >= t - 1e-9]
        window = [st_ for (ts, st_) in s.status_trace if t - 1e-9 <= ts <= t + 35]
        if "DISCONNECTED" not in window:
            out.append((f"C13|{kind}|no-disconnected|{f}", f"fault '{f}' at t={t - s.t0:.3f}: DISCONNECTED not reported within 35 virtual s (status after the fault: {later[:4]})", case))
    # (2) attempts / back-off
    att = s.gw.attempts
    ends = list(s.gw.attempt_ends) + [None] * (len(att) - len(s.gw.attempt_ends))
    acc = sorted(s.accept_times)
    runs, cur = [], []
    ai = 0
    for a, e in zip(att, ends):
        cur.append((a, e))
        if e is not None and ai < len(acc) and abs(acc[ai] - e) < 1e-9:
            runs.append(cur)
            cur = []
            ai += 1
    if cur:
        runs.append(cur)
    for r in runs:
        # pause between the answer to one attempt and the start of the next
        gaps = [b[0] - (a[1] if a[1] is not None else a[0]) for a, b in zip(r, r[1:])]
        r = [x[0] for x in r]
        for i, g in enumerate(gaps):
            if g <= 0:
                out.append((f"C13|{kind}|backoff-zero", f"attempt gap {g} s (attempt times {[round(x - s.t0, 3) for x in r][:8]})", case))
                break
            if g > 30 + 1e-6:
                out.append((f"C13|{kind}|backoff-unbounded", f"attempt gap {g:.2f} s exceeds 30 s", case))
                break
            if i and g < gaps[i - 1] - 1e-6:
                out.append((f"C13|{kind}|backoff-shrinks", f"gaps {[round(x, 3) for x in gaps][:8]} are not non-decreasing", case))
                break
            if i and gaps[i - 1] < 10 - 1e-6 and not g > gaps[i - 1] + 1e-6:
                out.append((f"C13|{kind}|backoff-not-growing", f"gaps {[round(x, 3) for x in gaps][:8]} do not grow below the cap", case))
                break
    # attempts continue until accepted: every episode produced a new link
    if len(s.gw.links) < len(s.fault_times) + 1:
        out.append((f"C13|{kind}|no-reconnect|{s.fault_times[-1][1] if s.fault_times else 'initial'}",
                    f"{len(s.gw.links)} links for {len(s.fault_times)} faults: the client stopped trying ({len(att)} attempts, notes {s.notes})", case))
    # (3) CONNECTED reported within 45 s of each acceptance, probe delivered
    for t in acc:
        if not any(st_ == "CONNECTED" and t - 1e-9 <= ts <= t + 45 for ts, st_ in s.status_trace):
            out.append((f"C13|{kind}|no-connected", f"gateway accepted at t={t - s.t0:.2f} but CONNECTED was not reported within 45 virtual s", case))
    if getattr(s, "quiet_after", True) is False:
        last = s.fault_times[-1][1] if s.fault_times else "initial"
        out.append((f"C13|{kind}|healthy-link-dropped|{last}", f"40 virtual s after the recovery, without any new fault: status {s.after_trace}, {len(s.gw.links)} links, "
                    f"{len(s.gw.attempts)} attempts", case))
    elif getattr(s, "probe2_delivered", True) is False:
        out.append((f"C13|{kind}|no-delivery-later", "a frame fed 40 virtual s after the recovery did not reach the receive callback", case))
    if s.probe_delivered is False:
        out.append((f"C13|{kind}|no-delivery-after-recovery", f"frame fed after recovery did not reach the receive callback (final state {s.final_state})", case))
    return out


def nontrivial(script):
    return bool(script["episodes"]) or script["initial_refusals"] >= 2


def _work(ctx: Ctx, item):
    kind, n = item

    def one(script):
        ctx.count()
        outcome, s = run_script(kind, script)
        if nontrivial(script):
            ctx.nt((kind, repr(script)))
        for ep in script["episodes"]:
            ctx.klass("fault:" + ep["fault"])
            ctx.klass("inject_at_" + ep["at"][0])
        ctx.klass("attempts", len(s.gw.attempts))
        if ctx.evaluations % 20 == 1:
            ctx.sample({"client": kind, "script": script, "attempt_times": [round(a - s.t0, 2) for a in s.gw.attempts][:10],
                        "status": [(round(t - s.t0, 2), x) for t, x in s.status_trace][:10], "loop_steps": s.loop.steps})
        return evaluate(kind, script, outcome, s)

    ctx.hyp(one, scripts(kind), max_examples=n, name="faults-" + kind)


def _enumerate(ctx: Ctx, item):
    """Every loop step of a session shape (thorough)."""
    kind, fault, steps = item
    for k in steps:
        for mid in (False, True):
            script = {"initial_refusals": 1, "episodes": [{"fault": fault, "at": ("step", k), "mid_packet": mid, "refusals": 2, "connect_error": False}],
                      "status_mode": ["plain", "slow_connected", "slow"][k % 3]}
            ctx.count()
            ctx.nontrivial_extra += 1
            outcome, s = run_script(kind, script)
            for b, w, c in evaluate(kind, script, outcome, s):
                ctx.report(b, w, c)
    ctx.klass(f"enumerated:{kind}:{fault}", len(steps) * 2)


def _special(ctx: Ctx, item):
    """Long outages (more than a thousand refused attempts in a row) and a second client of the process connecting while the first
    one is backing off."""
    kind, what = item
    if what == "errors":
        variants = [{"initial_refusals": 2, "initial_error": e, "status_mode": "plain", "network_map": i % 2 == 1,
                     "episodes": [{"fault": "eof", "at": ("time", (0.5, 3.0, 0.005)[i % 3]), "mid_packet": False, "refusals": 2, "connect_error": e}]}
                    for i, e in enumerate(CONNECT_ERRORS)]
        # every fault kind shortly after CONNECTED on a client that builds a network map (it asks the bus for address claims right then)
        variants += [{"initial_refusals": 0, "status_mode": "plain", "network_map": True,
                      "episodes": [{"fault": f, "at": ("time", t), "mid_packet": False, "refusals": 1, "connect_error": False}]}
                     for f in FAULTS if (f not in ("sorry", "sorry_reset_send") or kind == "ebyte") and not (f == "write_error" and kind == "actisense")
                     for t in (0.3, 2.0, 5.5)]
    elif what == "long":
        variants = [{"initial_refusals": 1100, "episodes": [], "status_mode": "plain"},
                    {"initial_refusals": 0, "status_mode": "plain",
                     "episodes": [{"fault": "eof", "at": ("time", 0.5), "mid_packet": False, "refusals": 1100, "connect_error": False}]}]
    else:
        variants = [{"initial_refusals": r, "episodes": eps, "status_mode": "plain", "companion_connects": cc}
                    for r in (3, 6)
                    for cc in ([0.2], [0.75, 2.0], [4.0, 9.0])
                    for eps in ([], [{"fault": "eof", "at": ("time", 0.5), "mid_packet": False, "refusals": 4, "connect_error": False}])]
    for script in variants:
        ctx.count()
        ctx.nontrivial_extra += 1
        ctx.klass("long_outage" if what == "long" else "every_connect_error_kind" if what == "errors" else "second_client_connects_during_backoff")
        outcome, s = run_script(kind, script)
        for b, w, c in evaluate(kind, script, outcome, s):
            ctx.report(b + ("|long-outage" if what == "long" else "|connect-errors" if what == "errors" else "|second-client"), w, c)


def _sweep(ctx: Ctx, item):
    from .. import clientopts as co
    co.sweep_through_client(ctx, "C13", item[0], item[1], item[2], compare=False)


def run(ctx: Ctx):
    pmap(ctx, _sweep, [(k, part, 4) for k in aio.CLIENT_KINDS for part in range(4)])
    import os
    pmap(ctx, _special, [(k, w) for k in aio.CLIENT_KINDS for w in (("companion", "errors") if os.environ.get("VF_SUBPASS") else ("companion", "errors", "long"))])
    n = 25 if ctx.quick else 2500
    pmap(ctx, _work, [(k, n) for k in aio.CLIENT_KINDS for _ in range(4)])
    ks = range(0, 12) if ctx.quick else range(0, 160)
    jobs = []
    for kind in aio.CLIENT_KINDS:
        for f in FAULTS:
            if f in ("sorry", "sorry_reset_send") and kind != "ebyte":
                continue
            if f == "write_error" and kind == "actisense":
                continue
            jobs.append((kind, f, list(ks)))
    pmap(ctx, _enumerate, jobs)
    ctx.notes["step_enumeration"] = f"fault injected at every loop step 0..{max(ks)} after link-up, with and without a partial packet, for {len(jobs)} (client, fault) shapes"


def replay(ctx: Ctx, case):
    if "sweep_client" in case:
        sub = Ctx(ctx.pid)
        sub.known_open = {}
        _sweep(sub, (case["sweep_client"], case["part"], case["parts"]))
        return [(b, v["what"], v["case"]) for b, v in sub.found.items()]
    script = case["script"]
    for ep in script["episodes"]:
        ep["at"] = tuple(ep["at"])
    outcome, s = run_script(case["client"], script)
    res = evaluate(case["client"], script, outcome, s)
    if script.get("companion_connects"):
        res = [(b + "|second-client", w, c) for b, w, c in res]
    elif script.get("initial_error") not in (None, False) and len(script["episodes"]) == 1 and script["initial_refusals"] == 2:
        res = res + [(b + "|connect-errors", w, c) for b, w, c in res]
    elif max([script["initial_refusals"]] + [ep["refusals"] for ep in script["episodes"]]) >= 1000:
        res = [(b + "|long-outage", w, c) for b, w, c in res]
    return res
