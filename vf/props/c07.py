"""C07 - the same CAN frame decodes identically through every input format."""
from __future__ import annotations

from hypothesis import strategies as st

from .. import canboat, gen, wire
from ..common import Ctx, pmap

LEVEL = "exploration"
LEVEL_TEXT = ("Differential testing between the five public decode entry points: a generated CAN frame (database PGN, addressing, "
              "definition-valid or arbitrary data of 1..8 bytes) is rendered by independent reference renderers in EByte, USB, Yacht "
              "Devices, Actisense and canboat plain text (direction markers, hex case, timestamp shapes varied) and all outcomes must agree; "
              "fast-packet messages are delivered frame by frame through the frame-level formats and pre-assembled through the others.")
TECHNIQUE = "differential testing between five format front-ends on reference-rendered frames (Hypothesis)"
RULE = ("database PGN x source x destination (PDU1) x priority x data {accepted payload of the definition, arbitrary bytes, 1..8 bytes} x format "
        "variants; single-frame: 5 formats, fast-packet: 3 frame-level formats + plain non-combined vs Actisense + plain combined, with real time passing between frames and with both format orders on one decoder, and two messages of one PGN from confusable addressings (same digits when written together, swapped, high bit) alternating frame by frame on one decoder; oracle: all "
        "formats return the same (id, PGN, source, destination, priority, fields) or none returns a message; non-trivial = data neither "
        "palindromic nor all-0xFF, or fast-packet; distinct = (pgn, addressing, data)")
ASSUMPTIONS = [
    "reference renderers in vf/wire.py follow the format descriptions linked from the decoder docstrings (EByte 13-byte, Waveshare 20-byte, "
    "YD RAW, Actisense N2K ASCII, canboat plain)",
    "an exception from a front-end counts as 'no message'",
    "timestamps are never compared",
    "payloads have at least one byte: a zero-length payload has no rendering in the Actisense line format (nothing follows the PGN)",
]


DEC_KW: dict = {}       # options of every decoder the format comparison builds (set by with_options)


def with_options(kw, fn, *a):
    """Run fn(*a) with every decoder built with the options kw."""
    saved = dict(DEC_KW)
    DEC_KW.clear()
    DEC_KW.update(kw)
    try:
        return fn(*a)
    finally:
        DEC_KW.clear()
        DEC_KW.update(saved)


def canon(m):
    if m is None:
        return None
    return (m.id, m.PGN, m.source, m.destination, m.priority, tuple((f.id, repr(f.value), repr(f.raw_value)) for f in m.fields))


def run_single(pgn, src, dest, prio, data, variant):
    """-> dict format -> canonical outcome, for a single CAN frame."""
    from nmea2000.decoder import NMEA2000Decoder
    ident = wire.ident(pgn, src, dest, prio)
    up, direction, ts_a, ts_p, ts_y, pad = variant[:6]
    pad = bytes.fromhex(pad)
    out = {}

    def guard(name, fn):
        try:
            out[name] = canon(fn(NMEA2000Decoder(**DEC_KW)))
        except Exception as e:
            out[name] = None
    guard("ebyte", lambda d: d.decode_tcp(wire.ebyte(ident, data, pad)))
    guard("usb", lambda d: d.decode_usb(wire.usb(ident, data, pad)))
    guard("yd", lambda d: d.decode_yacht_devices_string(wire.yd(ident, data, direction, up, ts_y)))
    guard("actisense", lambda d: d.decode_actisense_string(wire.actisense(pgn, src, dest, prio, data, ts_a, up)))
    guard("plain", lambda d: d.decode_basic_string(wire.plain(pgn, src, dest, prio, data, ts_p, up)))
    return out


def run_fast(pgn, src, dest, prio, payload, seq, variant):
    from nmea2000.decoder import NMEA2000Decoder
    ident = wire.ident(pgn, src, dest, prio)
    up, direction, ts_a, ts_p, ts_y, pad = variant[:6]
    pad = bytes.fromhex(pad)
    frames = wire.segment(payload, seq)
    out = {}

    from ..common import CLOCK
    warp = variant[6] if len(variant) > 6 else 0

    def frames_through(name, fn):
        try:
            d = NMEA2000Decoder(**DEC_KW)
            r = None
            for i, fr in enumerate(frames):
                if i and warp:
                    CLOCK.warp(warp)          # real time passes between two frames of the message
                r = fn(d, fr)
                if i < len(frames) - 1 and r is not None:
                    out[name] = ("early", canon(r))
                    return
            out[name] = canon(r)
        except Exception:
            out[name] = None
    frames_through("ebyte", lambda d, fr: d.decode_tcp(wire.ebyte(ident, fr, pad)))
    frames_through("usb", lambda d, fr: d.decode_usb(wire.usb(ident, fr, pad)))
    frames_through("yd", lambda d, fr: d.decode_yacht_devices_string(wire.yd(ident, fr, direction, up, ts_y)))
    frames_through("plain-frames", lambda d, fr: d.decode_basic_string(wire.plain(pgn, src, dest, prio, fr, ts_p, up)))
    try:
        out["actisense"] = canon(NMEA2000Decoder(**DEC_KW).decode_actisense_string(wire.actisense(pgn, src, dest, prio, payload, ts_a, up)))
    except Exception:
        out["actisense"] = None
    # the sender restarts and sends the message again with the SAME sequence counter (right after the first one was completed)
    try:
        d = NMEA2000Decoder(**DEC_KW)
        r = None
        for rep in range(2):
            r = None
            for i, fr in enumerate(frames):
                r = d.decode_tcp(wire.ebyte(ident, fr, pad))
                if i < len(frames) - 1 and r is not None:
                    break
        out["ebyte-again-same-counter"] = canon(r) if (r is None or i == len(frames) - 1) else ("early", canon(r))
    except Exception:
        out["ebyte-again-same-counter"] = None
    # frames as they are on the bus: every CAN frame has 8 data bytes, the unused tail of the last one is 0xFF (devices) or 0x00
    for name, fill in (("ebyte-padded-ff", 0xFF), ("ebyte-padded-00", 0x00)):
        try:
            d = NMEA2000Decoder(**DEC_KW)
            r = None
            for i, fr in enumerate(frames):
                r = d.decode_tcp(wire.ebyte(ident, fr + bytes([fill]) * (8 - len(fr))))
                if i < len(frames) - 1 and r is not None:
                    break
            out[name] = canon(r) if (r is None or i == len(frames) - 1) else ("early", canon(r))
        except Exception:
            out[name] = None
    # the caller reads every packet into ONE reusable buffer (recv_into / readinto style) and overwrites it for the next packet
    for name, size, render, call in (("ebyte-reused-buffer", 13, lambda fr: wire.ebyte(ident, fr, pad), lambda d, b: d.decode_tcp(b)),
                                     ("usb-reused-buffer", 20, lambda fr: wire.usb(ident, fr, pad), lambda d, b: d.decode_usb(b)),
                                     ("ebyte-reused-buffer-view", 13, lambda fr: wire.ebyte(ident, fr, pad), lambda d, b: d.decode_tcp(memoryview(b))),
                                     ("usb-reused-buffer-view", 20, lambda fr: wire.usb(ident, fr, pad), lambda d, b: d.decode_usb(memoryview(b)))):
        try:
            d = NMEA2000Decoder(**DEC_KW)
            buf = bytearray(size)
            r = None
            for i, fr in enumerate(frames):
                buf[:] = render(fr)
                r = call(d, buf)
                buf[:] = b"\xee" * size           # the buffer is the caller's: it is scribbled over before the next read
                if i < len(frames) - 1 and r is not None:
                    break
            out[name] = canon(r) if (r is None or i == len(frames) - 1) else ("early", canon(r))
        except Exception:
            out[name] = None
    # address claims arrive around and between the frames: a first claim of some address X before the message, another claim of X with a
    # different NAME in the middle.  X is the sender itself, the destination, or an address whose decimal digits are part of theirs.
    from .. import traffic
    cands = [src, dest if dest < 254 else src, int(str(src)[0]), int(str(src)[:2]), 2, 25, 13, 1, int(str(dest)[:1])]
    x = min(cands[(seq + len(payload)) % len(cands)], 253)
    try:
        d = NMEA2000Decoder(**DEC_KW)
        d.decode_tcp(wire.ebyte(wire.ident(60928, x, 255, 6), traffic.iso_name(41, 137).to_bytes(8, "little")))
        r = None
        for i, fr in enumerate(frames):
            if i == max(1, len(frames) // 2) or (len(frames) == 1 and i == 0):
                d.decode_tcp(wire.ebyte(wire.ident(60928, x, 255, 6), traffic.iso_name(42, 229).to_bytes(8, "little")))
            r = d.decode_tcp(wire.ebyte(ident, fr, pad))
            if i < len(frames) - 1 and r is not None:
                break
        out["ebyte-with-address-claims"] = canon(r) if (r is None or i == len(frames) - 1) else ("early", canon(r))
    except Exception:
        out["ebyte-with-address-claims"] = None
    # ONE decoder that receives the message through a whole-message format first and frame by frame afterwards (another sequence
    # counter), and one that sees it the other way round: the order of formats on a decoder must not matter
    frames2 = wire.segment(payload, (seq + 1) % 8)
    try:
        d = NMEA2000Decoder(**DEC_KW)
        d.decode_actisense_string(wire.actisense(pgn, src, dest, prio, payload, ts_a, up))
        r = None
        for fr in frames2:
            r = d.decode_tcp(wire.ebyte(ident, fr, pad))
        out["ebyte-after-actisense"] = canon(r)
    except Exception:
        out["ebyte-after-actisense"] = None
    try:
        d = NMEA2000Decoder(**DEC_KW)
        for fr in frames2:
            d.decode_usb(wire.usb(ident, fr, pad))
        out["plain-combined-after-usb"] = canon(d.decode_basic_string(wire.plain(pgn, src, dest, prio, payload, ts_p, up), already_combined=True))
    except Exception:
        out["plain-combined-after-usb"] = None
    try:
        out["plain-combined"] = canon(NMEA2000Decoder(**DEC_KW).decode_basic_string(wire.plain(pgn, src, dest, prio, payload, ts_p, up), already_combined=True))
    except Exception:
        out["plain-combined"] = None
    return out


def confusable(src, dest, pdu1):
    """Addressings that are easy to confuse with (src, dest): same text when the two numbers are written without a separator in hex or
    decimal, swapped, or differing only in a high bit."""
    out = set()
    if pdu1:
        for fmt, base in (("%X", 16), ("%d", 10)):
            t = fmt % src + fmt % dest
            for cut in range(1, len(t)):
                a, b = t[:cut], t[cut:]
                if (a[0] == "0" and len(a) > 1) or (b[0] == "0" and len(b) > 1):
                    continue
                a, b = int(a, base), int(b, base)
                if a <= 253 and b <= 255:
                    out.add((a, b))
        out.add((dest if dest <= 253 else src, src))
        out.add((src, dest ^ 0x80))
    out.add(((src ^ 0x80) if (src ^ 0x80) <= 253 else src ^ 0x40, dest))
    out.discard((src, dest))
    return sorted(out)


def run_interleaved(pgn, prio, a, b):
    """a, b = (src, dest, payload, seq): two messages of one PGN with different addressing, frames alternating on ONE decoder; each must
    equal its pre-assembled delivery."""
    from nmea2000.decoder import NMEA2000Decoder
    d = NMEA2000Decoder(**DEC_KW)
    fa, fb = wire.segment(a[2], a[3]), wire.segment(b[2], b[3])
    got = {"a": None, "b": None}
    order = []
    for i in range(max(len(fa), len(fb))):
        if i < len(fa):
            order.append(("a", a, fa[i], i == len(fa) - 1))
        if i < len(fb):
            order.append(("b", b, fb[i], i == len(fb) - 1))
    for name, m, fr, last in order:
        try:
            r = d.decode_tcp(wire.ebyte(wire.ident(pgn, m[0], m[1], prio), fr))
        except Exception:
            r = None
        if r is not None and not last:
            got[name] = ("early", canon(r))
        elif last and got[name] is None:
            got[name] = canon(r)
    out = {}
    for name, m in (("a", a), ("b", b)):
        try:
            whole = canon(NMEA2000Decoder(**DEC_KW).decode_basic_string(wire.plain(pgn, m[0], m[1], prio, m[2], "2024-01-02-03:04:05.678", False), already_combined=True))
        except Exception:
            whole = None
        out[name] = {"ebyte-interleaved": got[name], "plain-combined": whole}
    return out


def compare(outcomes, case):
    names = sorted(outcomes)
    ref = names[0]
    res = []
    for n in names[1:]:
        if outcomes[n] != outcomes[ref]:
            a, b = outcomes[ref], outcomes[n]
            what = "message vs none" if (a is None) != (b is None) else "different content"
            detail = ""
            if a is not None and b is not None and a[0] != "early" and b[0] != "early":
                if a[:5] != b[:5]:
                    detail = f" header {a[:5]} vs {b[:5]}"
                else:
                    diff = [x[0] for x, y in zip(a[5], b[5]) if x != y]
                    detail = f" fields {diff}"
            res.append((f"C07|{ref}-vs-{n}|{what}", f"{ref} and {n} disagree:{detail}", case))
    return res


variants = st.tuples(st.booleans(), st.sampled_from(["R", "T"]),
                     st.sampled_from(["A000057.055", "A173321.107", "A000000.000"]),
                     st.sampled_from(["2024-01-02-03:04:05.678", "2024-01-02T03:04:05.678Z"]),
                     st.sampled_from(["12:34:56.789", "00:00:00.000", "23:59:59.999"]),
                     # bytes after the declared data length inside the fixed-size binary packets are "don't care"
                     st.one_of(st.just("00" * 8), st.just("ff" * 8), st.binary(min_size=8, max_size=8).map(bytes.hex)),
                     # seconds of real time between two frames of a frame-wise delivery (process clock advanced)
                     st.sampled_from([0, 0, 0, 1.0, 30.0]))


def _work(ctx: Ctx, item):
    keys, n = item
    db = canboat.db()
    for key in keys:
        d = db.by_key[key]
        pdu1 = ((d.pgn >> 8) & 0xFF) < 240
        dests = st.integers(0, 255) if pdu1 else st.just(255)
        if not d.fast:
            data_st = st.one_of(
                gen.payloads(d, mode="accepted", extra_bytes=False).map(lambda p: p[0].to_bytes(p[1], "little")[:8]),
                st.binary(min_size=1, max_size=8),
                st.binary(min_size=8, max_size=8))

            def one(src, dest, prio, data, variant, d=d):
                ctx.count()
                if data != data[::-1] and data.strip(b"\xff"):
                    ctx.nt((d.pgn, src, dest, prio, data))
                ctx.klass("single")
                case = {"pgn": d.pgn, "source": src, "destination": dest, "priority": prio, "data_hex": data.hex(), "variant": list(variant), "fast": False}
                outs = run_single(d.pgn, src, dest, prio, data, variant)
                ctx.klass("single_all_decode" if all(v is not None for v in outs.values()) else "single_some_none")
                # the same through decoders with network mapping on (the sender has not claimed: the discovery window applies to every format alike)
                outs2 = with_options({"build_network_map": True}, run_single, d.pgn, src, dest, prio, data, variant)
                return compare(outs, case) + [(b + "|network-map", w, dict(c, network_map=True)) for b, w, c in compare(outs2, case)]
            ctx.hyp(one, st.integers(0, 253), dests, st.integers(0, 7), data_st, variants, max_examples=n, name="single")
        else:
            pl = st.one_of(gen.payloads(d, mode="accepted", extra_bytes=False).map(lambda p: p[0].to_bytes(p[1], "little")[:223]),
                           st.binary(min_size=1, max_size=40))

            def onef(src, dest, prio, payload, seq, variant, d=d):
                ctx.count()
                ctx.nt((d.pgn, src, dest, prio, payload))
                ctx.klass("fast")
                case = {"pgn": d.pgn, "source": src, "destination": dest, "priority": prio, "data_hex": payload.hex(), "seq": seq,
                        "variant": list(variant), "fast": True}
                outs = run_fast(d.pgn, src, dest, prio, payload, seq, variant)
                ctx.klass("fast_all_decode" if all(v is not None for v in outs.values()) else "fast_some_none")
                outs2 = with_options({"build_network_map": True}, run_fast, d.pgn, src, dest, prio, payload, seq, variant)
                outs2.pop("ebyte-with-address-claims", None)      # there the sender may have claimed: legitimately not withheld
                return compare(outs, case) + [(b + "|network-map", w, dict(c, network_map=True)) for b, w, c in compare(outs2, case)]
            ctx.hyp(onef, st.integers(0, 253), dests, st.integers(0, 7), pl, st.integers(0, 7), variants, max_examples=n, name="fast")

            # two messages of the PGN from confusable addressings, frames alternating on one decoder
            @st.composite
            def pairs(draw, pdu1=pdu1, dests=dests, pl=pl):
                if pdu1 and draw(st.booleans()):
                    # few digits: many ways to read the two numbers written together
                    src, dest = draw(st.integers(1, 25)), draw(st.integers(0, 40))
                else:
                    src, dest = draw(st.integers(0, 253)), draw(dests)
                other = draw(st.sampled_from(confusable(src, dest, pdu1)))
                return (src, dest, draw(pl), draw(st.integers(0, 7))), (other[0], other[1], draw(pl), draw(st.integers(0, 7)))

            def onei(prio, ab, d=d):
                a, b = ab
                ctx.count()
                ctx.nt((d.pgn, "interleaved", a, b))
                ctx.klass("fast_interleaved")
                case = {"pgn": d.pgn, "priority": prio, "interleaved": [[a[0], a[1], a[2].hex(), a[3]], [b[0], b[1], b[2].hex(), b[3]]], "fast": True}
                res = []
                for name, outs in run_interleaved(d.pgn, prio, a, b).items():
                    res += [(bk + "|interleaved", w, c) for bk, w, c in compare(outs, case)]
                return res
            ctx.hyp(onei, st.integers(0, 7), pairs(), max_examples=max(n // 2, 10), name="interleaved")
        if d.index % 60 == 0:
            ctx.sample({"pgn": d.pgn, "definition": key, "fast": d.fast})


def run_many(key, n_streams, fmt, by="source"):
    """n_streams fast-packet messages in flight at once on ONE decoder (every device answering a request at the same moment; or one
    device sending many PGNs), frames round-robin: each equals its pre-assembled delivery."""
    from nmea2000.decoder import NMEA2000Decoder
    db = canboat.db()
    if by == "source":
        d = db.by_key[key]
        p, nb, _ = gen.benign_payload(d)
        base = p.to_bytes(nb, "little")
        streams = [(d.pgn, k % 254, 255, base, k % 8) for k in range(n_streams)]
    else:
        fast = [x for x in db.defs if x.fast and x.supported and x.ptype == "Fast" and len(db.by_pgn[x.pgn]) == 1][:n_streams]
        streams = []
        for k, x in enumerate(fast):
            p, nb, _ = gen.benign_payload(x)
            streams.append((x.pgn, 7, 255, p.to_bytes(nb, "little"), k % 8))
    render = {"ebyte": lambda dec, i, fr: dec.decode_tcp(wire.ebyte(i, fr)), "usb": lambda dec, i, fr: dec.decode_usb(wire.usb(i, fr)),
              "yd": lambda dec, i, fr: dec.decode_yacht_devices_string(wire.yd(i, fr, "R", True, "12:34:56.789"))}[fmt]
    dec = NMEA2000Decoder(**DEC_KW)
    segs = [wire.segment(pl, seq) for _, _, _, pl, seq in streams]
    got = [None] * len(streams)
    for i in range(max(len(x) for x in segs)):
        for k, (pgn, src, dest, pl, seq) in enumerate(streams):
            if i >= len(segs[k]):
                continue
            try:
                r = render(dec, wire.ident(pgn, src, dest, 6), segs[k][i])
            except Exception as e:          # noqa: BLE001
                r = None
            if r is not None:
                got[k] = canon(r) if i == len(segs[k]) - 1 else ("early", canon(r))
    bad = []
    for k, (pgn, src, dest, pl, seq) in enumerate(streams):
        try:
            whole = canon(NMEA2000Decoder(**DEC_KW).decode_basic_string(wire.plain(pgn, src, dest, 6, pl, "2024-01-02-03:04:05.678", False), already_combined=True))
        except Exception:
            whole = None
        if got[k] != whole:
            bad.append((k, pgn, src))
    return bad, len(streams)


def _many(ctx: Ctx, item):
    key, n_streams, fmt, by = item
    ctx.count()
    ctx.nontrivial_extra += 1
    bad, n = run_many(key, n_streams, fmt, by)
    ctx.klass(f"streams_in_flight:{'<=16' if n <= 16 else '<=64' if n <= 64 else '>64'}")
    if bad:
        ctx.report(f"C07|many-streams|{fmt}|by-{by}", f"{n} fast-packet messages in flight on one decoder ({'one per source' if by == 'source' else 'one per PGN'}), frames "
                   f"round-robin through {fmt}: {len(bad)} of them differ from their pre-assembled delivery (first: stream {bad[0][0]}, PGN {bad[0][1]}, source {bad[0][2]})",
                   {"many": True, "definition": key, "streams": n_streams, "format": fmt, "by": by})


def run(ctx: Ctx):
    from .. import longrun
    sizes = (2, 9, 17, 40, 120, 254) if ctx.quick else (2, 3, 5, 9, 16, 17, 18, 31, 33, 40, 64, 65, 100, 120, 200, 254)
    pmap(ctx, _many, [(k, n_, f, "source") for k in ("126996/productInformation", "129029/gnssPositionData", "127506/dcDetailedStatus") for n_ in sizes for f in ("ebyte", "usb", "yd")]
         + [(None, n_, f, "pgn") for n_ in (5, 20, 60) for f in ("ebyte", "usb", "yd")])
    pmap(ctx, longrun.ticks, [(x, "C07") for x in longrun.limits(ctx)])
    db = canboat.db()
    # one definition per PGN is enough to name the PGN; payload validity is drawn from that definition
    keys = [d.key for d in db.defs if d.ptype in ("Single", "Fast")]
    n = 20 if ctx.quick else 400
    shards = [keys[i::48] for i in range(48)]
    pmap(ctx, _work, [(s, n) for s in shards if s])
    ctx.notes["definitions"] = len(keys)


def replay(ctx: Ctx, case):
    if "ticks" in case:
        from .. import longrun
        return longrun.replay(case, "C07")
    if case.get("many"):
        bad, n = run_many(case["definition"], case["streams"], case["format"], case["by"])
        return [(f"C07|many-streams|{case['format']}|by-{case['by']}", f"{len(bad)} of {n} concurrent fast-packet messages differ from their pre-assembled delivery", case)] if bad else []
    if case.get("interleaved"):
        a, b = [(x[0], x[1], bytes.fromhex(x[2]), x[3]) for x in case["interleaved"]]
        res = []
        for name, outs in run_interleaved(case["pgn"], case["priority"], a, b).items():
            res += [(bk + "|interleaved", w, c) for bk, w, c in compare(outs, case)]
        return res
    data = bytes.fromhex(case["data_hex"])
    v = tuple(case["variant"])
    kw = {"build_network_map": True} if case.get("network_map") else {}
    sfx = "|network-map" if case.get("network_map") else ""
    if case.get("fast"):
        outs = with_options(kw, run_fast, case["pgn"], case["source"], case["destination"], case["priority"], data, case["seq"], v)
        if kw:
            outs.pop("ebyte-with-address-claims", None)
        res = compare(outs, case)
    else:
        res = compare(with_options(kw, run_single, case["pgn"], case["source"], case["destination"], case["priority"], data, v), case)
    return [(b + sfx, w, c) for b, w, c in res]
