"""C08 - proprietary PGN definitions are selected exactly by their match fields."""
from __future__ import annotations

import itertools

from .. import canboat, gen
from ..common import Ctx, pmap

LEVEL = "exploration"
LEVEL_TEXT = ("For every multi-definition PGN a structured family of payloads around every definition (own match values; all single and, where "
              "small enough, all pairs of perturbations by sibling values, a foreign value and one-bit neighbours; Hypothesis-sampled larger "
              "sets) is enumerated, each with three fillings of the remaining bits; the selected definition is observed through spies on the "
              "per-definition decoders and through the returned message id and compared with the first-match/fallback rule.")
TECHNIQUE = "structured enumeration of match-field perturbations per definition (+ Hypothesis-sampled combinations) against a reference selection rule, with spies"
RULE = ("all PGNs with several definitions x definition-centred payloads: every definition's own match values (and none), with every single "
        "and (where feasible: every, else Hypothesis-sampled) pair of perturbations drawn from {each sibling's value, a foreign value, each "
        "one-bit neighbour of the own value} at every match position, x fillings {zeros, ones, random} of all other bits; oracle: first definition in database order whose match fields all equal, else fallback, else none; fillings that "
        "differ only outside match fields must select the same definition; non-trivial = a combination with >= 1 position carrying a "
        "sibling's or a foreign value; distinct = (PGN, match tuple, filling)")
ASSUMPTIONS = [
    "selection is observed by substituting recording wrappers for the module-level per-definition decode functions in nmea2000.pgns "
    "(harness process only) so that it is visible even when the selected decoder later raises; the wrappers call the original function",
    "a definition without match fields matches every payload (vacuous truth), a PGN's Fallback definition is used last",
]


class Spy:
    def __init__(self):
        import nmea2000.pgns as P
        self.P = P
        self.calls = []
        self.installed = {}

    def install(self, ds):
        for d in ds:
            name = f"decode_pgn_{d.func_suffix()}"
            orig = getattr(self.P, name, None)
            if orig is None or name in self.installed:
                continue

            def wrapper(x, _orig=orig, _d=d):
                self.calls.append(_d.id)
                return _orig(x)
            self.installed[name] = orig
            setattr(self.P, name, wrapper)

    def remove(self):
        for name, orig in self.installed.items():
            setattr(self.P, name, orig)
        self.installed.clear()


def table_keys(ds):
    """(offset, bits) -> keys of the lookup table of the match field at that position (lookup-typed match fields)."""
    database = canboat.db()
    out = {}
    for d in ds:
        for f in d.fields:
            if f.match is not None and f.type == "LOOKUP" and f.lookup in database.lookups:
                keys = [k for k in database.lookups[f.lookup] if 0 <= k < (1 << f.bits)]
                if len(keys) <= 600:
                    out.setdefault((f.offset_bits, f.bits), set()).update(keys)
    return out


def positions(ds):
    pos = {}
    for d in ds:
        for off, bits, m, fid in d.matches:
            pos.setdefault((off, bits), set()).add(m)
    out = []
    for (off, bits), vals in sorted(pos.items()):
        foreign = next(v for v in itertools.chain([(1 << bits) - 1, 0], range(1, 1 << bits)) if v not in vals)
        out.append((off, bits, sorted(vals), foreign))
    return out


def build(nbytes, filler, assigns):
    """Payload = filler with the assignments (offset, bits, value) applied in order (later ones override earlier ones)."""
    payload = filler & ((1 << (8 * nbytes)) - 1)
    for off, bits, v in assigns:
        m = ((1 << bits) - 1) << off
        payload = (payload & ~m) | ((v << off) & m)
    return payload


def check_payload(ctx, db, dec, spy, pgn, ds, payload, nbytes, enc=None):
    case = {"pgn": pgn, "payload_hex": payload.to_bytes(nbytes, "little").hex()}
    exp = db.select(pgn, payload)
    spy.calls.clear()
    out = []
    msg = None
    try:
        msg = dec.decode_basic_string(gen.basic_string(pgn, payload, nbytes), already_combined=True)
    except Exception:
        pass
    multi = ds[0].multi
    exp_id = exp.id if exp is not None else None
    if multi:
        called = spy.calls[0] if spy.calls else None
        if called != exp_id:
            out.append((f"C08|selection|{pgn}|{exp_id}->{called}", f"expected definition {exp_id}, dispatcher chose {called}", case))
    if msg is not None:
        if exp is None:
            out.append((f"C08|unexpected-message|{pgn}", f"no definition matches but message {msg.id} was returned", case))
        elif msg.id != exp.id:
            out.append((f"C08|message-id|{pgn}|{exp.id}->{msg.id}", f"expected definition {exp.id}, message says {msg.id}", case))
        d = next((x for x in ds if x.id == msg.id), None)
        if d is not None:
            for off, bits, m, fid in d.matches:
                if (payload >> off) & ((1 << bits) - 1) != m:
                    out.append((f"C08|match-not-carried|{pgn}|{msg.id}", f"message {msg.id} returned but payload has {fid} != {m}", case))
        if enc is not None and d is not None and d.encodable:
            try:
                # encode side: the per-definition encoder is chosen by PGN + id; what it writes must again be selected by the
                # rule (a definition shorter than its siblings' match positions may legitimately re-decode as a sibling)
                text = enc.encode_actisense(msg)
                re_payload = int.from_bytes(bytes.fromhex(text.split(" ")[2]), "little")
                for off, bits, m, fid in d.matches:
                    if (re_payload >> off) & ((1 << bits) - 1) != m:
                        out.append((f"C08|reencode-match|{pgn}|{msg.id}", f"re-encoded {msg.id} does not carry its match value {fid}={m}", case))
                back = dec.decode_actisense_string("A000001.000 " + text)
                exp2 = db.select(pgn, re_payload)
                if back is not None and exp2 is not None and back.id != exp2.id:
                    out.append((f"C08|reencode-id|{pgn}|{msg.id}", f"re-encoded payload decodes as {back.id}, rule says {exp2.id}", case))
            except Exception:
                ctx.klass("reencode_error")
    return out, (spy.calls[0] if spy.calls else None)


def perturbations(ds, pos, centre, tables=None):
    """Single assignments that move a payload away from (or onto) a definition: every candidate value of every match position,
    and every one-bit neighbour of the centre's own value (what a wrong mask or constant would confuse)."""
    tables = tables or {}
    out = []
    mine = {(off, bits): m for off, bits, m, _ in centre.matches} if centre is not None else {}
    for off, bits, vals, foreign in pos:
        cand = set(vals) | {foreign}
        if (off, bits) in mine:
            cand |= {mine[(off, bits)] ^ (1 << b) for b in range(bits)}
            # every key of the field's lookup table (e.g. all manufacturer codes: an alias or a neighbouring entry of the table
            # must not select the definition either)
            cand |= tables.get((off, bits), set())
            cand.discard(mine[(off, bits)])
        for v in sorted(cand):
            out.append((off, bits, v))
    return out


def _work(ctx: Ctx, item):
    from hypothesis import strategies as st
    from nmea2000.decoder import NMEA2000Decoder
    from nmea2000.encoder import NMEA2000Encoder
    pgns, pair_limit, n_hyp, seed = item
    db = canboat.db()
    spy = Spy()
    dec = NMEA2000Decoder()
    enc = NMEA2000Encoder()
    import random
    try:
        for pgn in pgns:
            ds = db.by_pgn[pgn]
            spy.install(ds)
            pos = positions(ds)
            tables = table_keys(ds)
            nbytes = max(max(d.nbytes() for d in ds), max(((off + bits + 7) // 8 for off, bits, _, _ in pos), default=1))
            nbytes = min(nbytes, 223)
            r = random.Random(seed * 100003 + pgn)    # filler plan derived from VERIF_SEED only
            ones = (1 << (8 * nbytes)) - 1
            n_cases = 0

            def run_assigns(assigns, nontrivial, fill_rand=None):
                res_all, sel = [], []
                fr = r.getrandbits(8 * nbytes) if fill_rand is None else fill_rand
                for fname, filler in (("zeros", 0), ("ones", ones), ("rand", fr)):
                    payload = build(nbytes, filler, assigns)
                    res, called = check_payload(ctx, db, dec, spy, pgn, ds, payload, nbytes, enc)
                    ctx.count()
                    sel.append(called)
                    if nontrivial:
                        ctx.nt((pgn, payload))
                    res_all += res
                # the three fillings differ only outside the assigned (match) bits; when every match position of the PGN is
                # assigned, the selection must not depend on the filling
                assigned = set()
                for off, bits, _ in assigns:
                    assigned |= set(range(off, off + bits))
                allpos = set()
                for off, bits, _, _ in pos:
                    allpos |= set(range(off, off + bits))
                if ds[0].multi and allpos <= assigned and len(set(sel)) != 1:
                    res_all.append((f"C08|filling-dependent|{pgn}", f"selection differs between fillings that agree on all match bits: {sel}",
                                    {"pgn": pgn, "assigns": [list(a) for a in assigns]}))
                return res_all

            centres = [None] + list(ds)
            singles_total = 0
            for c in centres:
                # base: every match position holds a foreign value, then the centre's own values
                base = [(off, bits, foreign) for off, bits, _, foreign in pos]
                if c is not None:
                    base += [(off, bits, m) for off, bits, m, _ in c.matches]
                for b, w, cs in run_assigns(base, c is not None):
                    ctx.report(b, w, cs)
                ps = perturbations(ds, pos, c, tables)
                singles_total += len(ps)
                for p1 in ps:
                    for b, w, cs in run_assigns(base + [p1], True):
                        ctx.report(b, w, cs)
                n_cases += 1 + len(ps)
                if len(ps) * len(ps) <= pair_limit:
                    for p1, p2 in itertools.combinations(ps, 2):
                        for b, w, cs in run_assigns(base + [p1, p2], True):
                            ctx.report(b, w, cs)
                        n_cases += 1
                    ctx.klass("centre_pairs_exhaustive")
                elif n_hyp:
                    strat = st.lists(st.sampled_from(ps), min_size=2, max_size=4)
                    ctx.hyp(lambda extra, fr, base=base: run_assigns(base + list(extra), True, fr), strat, st.integers(0, ones),
                            max_examples=n_hyp, name=f"pgn{pgn}-pairs")
                    ctx.klass("centre_pairs_sampled")
            ctx.notes.setdefault("pgns", {})[str(pgn)] = {"definitions": len(ds), "match_positions": len(pos), "single_perturbations": singles_total,
                                                          "structured_cases": n_cases}
            ctx.sample({"pgn": pgn, "definitions": [d.id for d in ds][:6], "match_positions": [(p[0], p[1]) for p in pos],
                        "structured_cases": n_cases})
            spy.remove()
    finally:
        spy.remove()


def _sibling_filters(ctx: Ctx, item):
    """Every definition of a multi-definition PGN, delivered the way the bus delivers it (frame by frame for fast-packet PGNs), to a decoder
    that excludes ONE OTHER definition of the PGN by id: the message is still returned as its own definition."""
    from nmea2000.decoder import NMEA2000Decoder
    from .. import gen, wire
    pgn, = item
    db = canboat.db()
    ds = [d for d in db.by_pgn[pgn] if d.supported]
    n = 0
    for d in ds:
        bp, bn, _ = gen.benign_payload(d)
        if db.select(pgn, bp) is not d or bn > 223 or (not d.fast and bn > 8):
            continue
        payload = bp.to_bytes(bn, "little")
        dest = 255 if ((pgn >> 8) & 0xFF) >= 240 else 7
        for sib in ds:
            if sib is d or sib.id == d.id:
                continue
            dec = NMEA2000Decoder(exclude_pgns=[sib.id])
            r = None
            try:
                frames = wire.segment(payload, (d.index + sib.index) % 8) if d.fast else [payload]
                for fr in frames:
                    r = wire.owned(dec.decode_tcp, wire.ebyte(wire.ident(pgn, 1, dest, 3), fr), view=bool((d.index + sib.index) % 2))
            except Exception as e:
                r = e
            ctx.count()
            n += 1
            if r is None or isinstance(r, Exception) or r.id != d.id:
                ctx.report(f"C08|sibling-excluded|{pgn}", f"{d.key} delivered frame by frame to a decoder that excludes the sibling '{sib.id}' by id came back as "
                           f"{'nothing' if r is None else repr(r) if isinstance(r, Exception) else r.id}",
                           {"pgn": pgn, "sibling_filter": [d.key, sib.id]})
    ctx.nontrivial_extra += n
    ctx.klass("sibling_excluded_by_id_cases", n)
    # ONE decoder that has first been given every definition of the PGN the library cannot decode (unsupported field types: it raises),
    # every definition once pre-assembled, and then every supported definition frame by frame: each is returned as itself
    dec = NMEA2000Decoder()
    dest = 255 if ((pgn >> 8) & 0xFF) >= 240 else 7
    m = 0
    seq = 0
    for phase in ("unsupported", "combined", "frames"):
        for d in db.by_pgn[pgn]:
            if (phase == "unsupported") != (not d.supported):
                continue
            try:
                bp, bn, _ = gen.benign_payload(d)
            except Exception:
                continue
            if bn > 223 or (phase != "combined" and not d.fast and bn > 8):
                continue
            payload = bp.to_bytes(bn, "little")
            r = None
            try:
                if phase == "combined":
                    r = dec.decode_basic_string(gen.basic_string(pgn, bp, bn, src=1, dest=dest), already_combined=True)
                else:
                    seq = (seq + 1) % 8          # every message of the stream carries the next sequence counter
                    for fr in (wire.segment(payload, seq) if d.fast else [payload]):
                        r = wire.owned(dec.decode_tcp, wire.ebyte(wire.ident(pgn, 1, dest, 3), fr), view=bool(seq % 2))
            except Exception as e:
                r = e
            if phase == "unsupported" or db.select(pgn, bp) is not d:
                continue
            ctx.count()
            m += 1
            if r is None or isinstance(r, Exception) or r.id != d.id:
                ctx.report(f"C08|sibling-history|{pgn}", f"{d.key} delivered {'pre-assembled' if phase == 'combined' else 'frame by frame'} to a decoder that has seen the PGN's "
                           f"other definitions (the undecodable ones first) came back as {'nothing' if r is None else repr(r) if isinstance(r, Exception) else r.id}",
                           {"pgn": pgn, "sibling_filter": [d.key, "history"]})
    ctx.nontrivial_extra += m
    ctx.klass("sibling_history_cases", m)


def run(ctx: Ctx):
    db = canboat.db()
    pmap(ctx, _sibling_filters, [(p,) for p, ds_ in db.by_pgn.items() if len(ds_) > 1])
    multi = [pgn for pgn, ds in db.by_pgn.items() if len(ds) > 1]
    ctx.notes["multi_definition_pgns"] = len(multi)
    pair_limit = 2500 if ctx.quick else 100000
    n_hyp = 20 if ctx.quick else 400
    pmap(ctx, _work, [([p], pair_limit, n_hyp, ctx.seed) for p in sorted(multi, key=lambda p: -len(db.by_pgn[p]))])
    ctx.exhaustive = False


def replay(ctx: Ctx, case):
    if "sibling_filter" in case:
        sub = Ctx(ctx.pid)
        sub.known_open = {}
        _sibling_filters(sub, (case["pgn"],))
        return [(b, v["what"], v["case"]) for b, v in sub.found.items()]
    from nmea2000.decoder import NMEA2000Decoder
    from nmea2000.encoder import NMEA2000Encoder
    db = canboat.db()
    pgn = case["pgn"]
    ds = db.by_pgn[pgn]
    spy = Spy()
    spy.install(ds)
    try:
        dec = NMEA2000Decoder()
        if "payload_hex" in case:
            data = bytes.fromhex(case["payload_hex"])
            res, _ = check_payload(ctx, db, dec, spy, pgn, ds, int.from_bytes(data, "little"), len(data), NMEA2000Encoder())
            return res
        nbytes = min(max(d.nbytes() for d in ds), 223)
        out, sel = [], []
        assigns = [tuple(a) for a in case["assigns"]]
        for filler in (0, (1 << (8 * nbytes)) - 1, 0x5A5A5A5A5A5A5A5A5A5A5A5A):
            res, called = check_payload(ctx, db, dec, spy, pgn, ds, build(nbytes, filler, assigns), nbytes)
            sel.append(called)
            out += res
        if len(set(sel)) != 1:
            out.append((f"C08|filling-dependent|{pgn}", f"selection differs between fillings {sel}", case))
        return out
    finally:
        spy.remove()
