"""C15 - JSON round-trips to an equivalent, re-encodable message; dump is faithful."""
from __future__ import annotations

import json
import math
import os
import shutil
import tempfile
from datetime import date, time

from hypothesis import strategies as st

from .. import canboat, gen, traffic
from ..common import Ctx, pmap

LEVEL = "exploration"
LEVEL_TEXT = ("Round-trip property over all decodable definitions and all field types (payloads from the C01 generator: 64-bit numbers, "
              "special floats, non-ASCII strings, binary, absent values; with and without source identity): to_json() must be strict JSON, "
              "from_json() must give back the same addressing and field values under the stated renderings, and the parsed message must "
              "encode to the same bytes. Dump files are compared with the returned messages for generated dump filters and histories.")
TECHNIQUE = "round-trip property (to_json / strict parse / from_json / re-encode) + dump-file model over generated histories (Hypothesis)"
RULE = ("all decodable definitions x payloads (any-class and accepted modes) x {no identity, after an address claim with network map on} x entry point (basic string; tcp, usb bytes / bytearray, YD, Actisense for single frames); "
        "oracle: json.loads strict; same PGN/id/source/destination/priority; per field same id, value, raw value with bytes->hex, "
        "date/time->ISO text; encode(from_json(to_json(m))) == encode(m); dump file after close() == JSON of exactly the returned "
        "messages matching the dump filter, in order; non-trivial = message with a field whose Python value is not JSON-native, or a dump "
        "configuration with an id entry; distinct = (definition, payload) / (filter, history)")
ASSUMPTIONS = [
    "non-finite floats (NaN, +-inf) have no JSON rendering; for them only validity of the JSON text is required",
    "dump filter ids are given exactly as the messages report them",
    "single-frame definitions are given payloads of at most their frame size (a 9-byte address claim does not exist on the bus)",
]


VIAS = ("tcp", "usb_bytes", "usb_bytearray", "yd", "actisense")


def render(v):
    if isinstance(v, (bytes, bytearray)):
        return bytes(v).hex()
    if isinstance(v, (date, time)):
        return v.isoformat()
    return v


def nonfinite(v):
    return isinstance(v, float) and (math.isnan(v) or math.isinf(v))


def strict_loads(s):
    def bad(c):
        raise ValueError("non-standard JSON constant " + c)
    return json.loads(s, parse_constant=bad)


class Checker:
    def __init__(self, ctx):
        from nmea2000.decoder import NMEA2000Decoder
        from nmea2000.encoder import NMEA2000Encoder
        from nmea2000.message import NMEA2000Message
        self.ctx = ctx
        self.Msg = NMEA2000Message
        self.plain = NMEA2000Decoder()
        self.mapped = NMEA2000Decoder(build_network_map=True)
        claim = traffic.iso_name(123456, 1855, 1, 2, 130, 25, 3, 4, 1)
        self.mapped.decode_tcp(traffic.render({"pgn": 60928, "src": 1, "dest": 255, "data": claim.to_bytes(8, "little")}))
        self.enc = NMEA2000Encoder()
        # decoders with unit preferences: what they return (converted values, new unit labels) must serialise and parse like anything else
        from nmea2000.consts import PhysicalQuantities as PQ
        self.units = [NMEA2000Decoder(preferred_units={getattr(PQ, q): u for q, u in prefs.items()})
                      for prefs in ({"TEMPERATURE": "C", "ANGLE": "deg", "SPEED": "kts", "PRESSURE": "bar"}, {"TEMPERATURE": "F", "PRESSURE": "psi", "ANGLE": "deg"})]

    def deliver(self, dec, d, payload, nbytes, via):
        """The entry points and argument container types the library's own clients use."""
        from .. import wire
        data = payload.to_bytes(nbytes, "little")
        if via == "basic":
            return dec.decode_basic_string(gen.basic_string(d.pgn, payload, nbytes, src=1), already_combined=True)
        dest = 255
        i = wire.ident(d.pgn, 1, dest, 3)
        if via == "tcp":
            return dec.decode_tcp(wire.ebyte(i, data))
        if via == "usb_bytes":
            return dec.decode_usb(wire.usb(i, data))
        if via == "usb_bytearray":
            return dec.decode_usb(bytearray(wire.usb(i, data)))       # the serial client hands over a slice of its bytearray buffer
        if via == "yd":
            return dec.decode_yacht_devices_string(wire.yd(i, data))
        return dec.decode_actisense_string(wire.actisense(d.pgn, 1, dest, 3, data))

    def check(self, d, payload, nbytes, with_identity, via="basic"):
        ctx = self.ctx
        dec = self.units[int(with_identity) - 2] if int(with_identity) >= 2 else self.mapped if with_identity else self.plain
        case = {"definition": d.key, "payload_hex": payload.to_bytes(nbytes, "little").hex(), "with_identity": with_identity, "via": via}
        try:
            m = self.deliver(dec, d, payload, nbytes, via)
        except Exception:
            ctx.klass("rejected")
            return [], False
        if m is None:
            ctx.klass("rejected")
            return [], False
        ctx.klass("decoded")
        native = all(isinstance(f.value, (int, float, str, type(None))) and not nonfinite(f.value) for f in m.fields)
        out = []
        try:
            text = m.to_json()
        except Exception as e:
            ftypes = sorted({type(f.value).__name__ for f in m.fields if not isinstance(f.value, (int, float, str, type(None)))})
            return [(f"C15|to_json-error|{type(e).__name__}|{','.join(ftypes) or 'native'}|{via}", f"to_json failed (message delivered via {via}): {type(e).__name__}: {e}", case)], not native
        try:
            parsed = strict_loads(text)
        except Exception as e:
            return [(f"C15|invalid-json|{type(e).__name__}", f"to_json output is not valid JSON: {e}", case)], not native
        try:
            m2 = self.Msg.from_json(text)
        except Exception as e:
            return [(f"C15|from_json-error|{type(e).__name__}", f"from_json failed on to_json output: {type(e).__name__}: {e}", case)], not native
        for attr in ("PGN", "id", "source", "destination", "priority"):
            if getattr(m2, attr) != getattr(m, attr):
                out.append((f"C15|header-{attr}", f"{attr} {getattr(m2, attr)!r} != {getattr(m, attr)!r} after JSON round trip", case))
        if len(m2.fields) != len(m.fields):
            out.append(("C15|field-count", f"{len(m2.fields)} fields after round trip, {len(m.fields)} before", case))
        for f, g in zip(m.fields, m2.fields):
            if g.id != f.id:
                out.append((f"C15|field-id|{f.type.name}", f"field id {g.id!r} != {f.id!r}", case))
            for slot in ("value", "raw_value"):
                a, b = getattr(f, slot), getattr(g, slot)
                if nonfinite(a):
                    continue
                if render(a) != b or type(render(a)) is not type(b) and not (isinstance(b, (int, float)) and isinstance(render(a), (int, float))):
                    out.append((f"C15|field-{slot}|{f.type.name}|{type(a).__name__}", f"{f.id}.{slot}: {a!r} became {b!r}", case))
        if d.encodable and not out:
            try:
                e1 = self.enc.encode_actisense(m)
            except Exception:
                e1 = None
                ctx.klass("original_not_encodable")
            if e1 is not None:
                try:
                    e2 = self.enc.encode_actisense(m2)
                    if e2 != e1:
                        out.append((f"C15|reencode-differs|{d.key}", f"encode(from_json(to_json(m))) = {e2} != encode(m) = {e1}", case))
                except Exception as e:
                    out.append((f"C15|reencode-error|{type(e).__name__}:{str(e)[:40]}", f"parsed message cannot be encoded: {type(e).__name__}: {e}", case))
                ctx.klass("reencoded")
        # the caller edits the parsed message; parsing the SAME text again still gives the original content
        if not out:
            snap = (m2.PGN, m2.id, m2.source, m2.destination, m2.priority, [(g.id, repr(g.value), repr(g.raw_value)) for g in m2.fields])
            m2.source, m2.destination, m2.priority = 99, 98, 1
            for g in m2.fields:
                g.value, g.raw_value = "edited by the caller", -5
            del m2.fields[1:]
            try:
                m3 = self.Msg.from_json(text)
                again = (m3.PGN, m3.id, m3.source, m3.destination, m3.priority, [(g.id, repr(g.value), repr(g.raw_value)) for g in m3.fields])
            except Exception as e:
                again = ("error", type(e).__name__)
            if again != snap:
                out.append(("C15|second-parse-differs", "from_json() of the same text gives another message after the caller edited the first result", case))
        return out, not native


def _work(ctx: Ctx, item):
    keys, n = item
    db = canboat.db()
    ck = Checker(ctx)
    for key in keys:
        d = db.by_key[key]

        def one(p, ident, d=d):
            payload, nbytes, classes = p
            ctx.count()
            res, nontrivial = ck.check(d, payload, nbytes, ident)
            if nontrivial:
                ctx.nt((d.key, payload, ident))
            if not d.fast and nbytes <= 8 and not res:
                # the same frame through the entry points (and argument types) the gateway clients use
                via = VIAS[(payload + nbytes + ident) % len(VIAS)]
                ctx.count()
                ctx.klass("via:" + via)
                r2, _ = ck.check(d, payload, nbytes, ident, via=via)
                res += [(b if b.endswith(via) else b + "|" + via, w, c) for b, w, c in r2]
            return res

        ctx.hyp(one, gen.payloads(d, mode="any", extra_bytes=d.fast), st.integers(0, 3), max_examples=n, name="any")
        ctx.hyp(one, gen.payloads(d, mode="accepted", extra_bytes=d.fast), st.integers(0, 3), max_examples=n, name="accepted")
        bp, bn, _ = gen.benign_payload(d)
        for ident in (0, 1, 2, 3):
            for b, w, c in one((bp, bn, []), ident):
                ctx.report(b, w, c)
        if d.index % 60 == 0:
            ctx.sample({"definition": key, "payload_hex": bp.to_bytes(bn, "little").hex()})


# ---- dump ---------------------------------------------------------------------------------------------
DUMP_UNITS = [{}, {"TEMPERATURE": "C", "ANGLE": "deg", "SPEED": "kts", "PRESSURE": "bar"}, {"TEMPERATURE": "F", "PRESSURE": "psi", "ANGLE": "deg"}]


def dump_case(entries, items, tmpdir, exclude=(), units=0, netmap=False, relative=False):
    from nmea2000.consts import PhysicalQuantities as PQ
    from nmea2000.decoder import NMEA2000Decoder
    path = os.path.join(tmpdir, "sub", "dump.jsonl")
    if os.path.exists(path):
        os.remove(path)
    # the other decoder options are varied too: what is dumped is what is returned (converted units, sender identity, hash)
    cwd = os.getcwd()
    if relative:
        # the application names the dump file relative to its working directory and changes directory later
        os.makedirs(os.path.join(tmpdir, "elsewhere"), exist_ok=True)
        os.chdir(tmpdir)
    try:
        dec = NMEA2000Decoder(dump_to_file=os.path.join("sub", "dump.jsonl") if relative else path, dump_pgns=list(entries), exclude_pgns=list(exclude),
                              build_network_map=netmap, preferred_units={getattr(PQ, q): u for q, u in DUMP_UNITS[units].items()})
        returned = []
        for k, it in enumerate(items):
            if relative and k == len(items) // 2:
                os.chdir(os.path.join(tmpdir, "elsewhere"))
            try:
                r = traffic.feed(dec, it)
            except Exception:
                r = None
            if r is not None:
                returned.append(r)
        dec.close()
    finally:
        os.chdir(cwd)
    nums = {e for e in entries if isinstance(e, int)}
    ids = {e for e in entries if isinstance(e, str)}
    exp = [m for m in returned if not entries or m.PGN in nums or m.id in ids]
    case = {"dump_pgns": list(entries), "exclude": list(exclude), "units": units, "netmap": netmap, "relative": relative, "items": [traffic.item_json(i) for i in items]}
    out = []
    with open(path) as f:
        lines = f.read().split("\n")
    if lines and lines[-1] == "":
        lines = lines[:-1]
    try:
        got = [strict_loads(l) for l in lines]
    except Exception as e:
        return [("C15|dump|invalid-line", f"dump file contains a line that is not JSON: {e}", case)], len(exp), len(returned)
    want = [strict_loads(m.to_json()) for m in exp]
    if got != want:
        kinds = "ids" if ids and not nums else "numbers" if nums and not ids else "mixed" if ids else "empty"
        if len(got) < len(want):
            what = "missing"
        elif len(got) > len(want):
            what = "extra"
        else:
            what = "content-or-order"
        out.append((f"C15|dump|{kinds}|{what}", f"dump has {len(got)} lines {[g.get('id') for g in got][:6]}, expected {len(want)} {[w.get('id') for w in want][:6]} for filter {entries}", case))
    return out, len(exp), len(returned)


def _non_ascii_item():
    from .. import gen
    d = canboat.db().by_key["126996/productInformation"]
    bp, bn, _ = gen.benign_payload(d)
    data = bytearray(bp.to_bytes(bn, "little"))
    txt = "Ålesund-é ° µ".encode("utf-8")
    data[4:36] = txt + b" " * (32 - len(txt))
    return {"kind": "combined", "pgn": 126996, "src": 1, "dest": 255, "data": bytes(data), "msg": 9999}


NON_ASCII_ITEM = _non_ascii_item()


def _dump(ctx: Ctx, item):
    n, = item
    db = canboat.db()
    keys = traffic.SINGLE_KEYS + traffic.FAST_KEYS
    pgns = sorted({db.by_key[k].pgn for k in keys})
    ids = sorted({db.by_key[k].id for k in keys}) + traffic.twin_ids()
    pgns = sorted(set(pgns) | set(traffic.TWIN_PGNS))
    tmpdir = tempfile.mkdtemp(prefix="vfdump")
    try:
        entry = st.one_of(st.sampled_from(pgns), st.sampled_from(ids), st.sampled_from([60928, "isoAddressClaim", 99999, "noSuchId"]))

        def one(entries, items, exclude, units, netmap, relative):
            ctx.count()
            if (len(items) + units) % 3 == 0:
                # a device whose product information carries non-ASCII text (delivered pre-assembled)
                items = list(items[: len(items) // 2]) + [NON_ASCII_ITEM] + list(items[len(items) // 2:])
                ctx.klass("dump_history_with_non_ascii_text")
            res, n_exp, n_ret = dump_case(entries, items, tmpdir, exclude, units, netmap, relative)
            if relative:
                ctx.klass("dump_relative_path_then_chdir")
            if units:
                ctx.klass("dump_with_preferred_units")
            if netmap:
                ctx.klass("dump_with_network_map")
            if exclude:
                ctx.klass("dump_with_exclude_filter")
            if any(isinstance(e, str) for e in entries):
                ctx.nt((tuple(map(str, entries)), tuple((i["pgn"], i["data"]) for i in items)))
                ctx.klass("dump_filter_with_id")
            ctx.klass("dump_empty_filter" if not entries else "dump_filter")
            if n_exp and n_exp < n_ret:
                ctx.klass("dump_partial_selection")
            return res
        ctx.hyp(one, st.lists(entry, min_size=0, max_size=4), traffic.history(min_msgs=5, max_msgs=12, twins=True),
                st.one_of(st.just([]), st.lists(st.one_of(st.sampled_from(pgns), st.sampled_from(ids)), min_size=1, max_size=2)),
                st.integers(0, len(DUMP_UNITS) - 1), st.booleans(), st.sampled_from([False, False, True]), max_examples=n, name="dump")
    finally:
        shutil.rmtree(tmpdir, ignore_errors=True)


def _close_while_disconnected(kind, msgs, path, entries, who="application"):
    """The gateway goes away (and stays away) after the messages were delivered; the application closes the client while it is
    DISCONNECTED: the dump holds every delivered message that matches. -> text of the discrepancy or ''
    who: the close() call comes from the application's main task (after the link dropped), from its status callback (when told
    DISCONNECTED) or from its receive callback (when handed the last message)."""
    import asyncio
    from .. import aio
    if os.path.exists(path):
        os.remove(path)
    s = aio.Session(kind, client_kwargs={"dump_to_file": path, "dump_pgns": list(entries)}, connect_plan=[("accept",), ("refuse",)])

    n_total = len(msgs)

    async def main(s):
        c = s.make_client()
        plain_status, plain_receive = c.status_callback, c.receive_callback

        async def on_status(state):
            await plain_status(state)
            if who == "status-callback" and state.name == "DISCONNECTED":
                s.state_at_close = state.name
                await c.close()

        async def on_receive(msg):
            await plain_receive(msg)
            if who == "receive-callback" and len(s.received) == n_total - 1:
                s.state_at_close = c.state.name
                await c.close()
        c.set_status_callback(on_status)
        c.set_receive_callback(on_receive)
        await c.connect()
        await asyncio.sleep(0.2)
        for ch in aio.render_messages(kind, msgs):
            s.gw.link.feed(ch)
            await asyncio.sleep(0.01)
        await asyncio.sleep(1.0)
        if who != "receive-callback":
            s.gw.link.eof()
        await asyncio.sleep(3.0)
        if who == "application":
            s.state_at_close = c.state.name
            await c.close()
    if s.run(main) != "ok":
        return f"session ended with {s.outcome}"
    got = [m for _, m in s.received]
    want = [strict_loads(m.to_json()) for m in got if not entries or m.PGN in entries or m.id in entries]
    try:
        with open(path) as f:
            have = [strict_loads(l) for l in f.read().split("\n") if l]
    except Exception as e:
        return f"dump unreadable: {e}"
    return "" if have == want and got else f"dump has {len(have)} lines, {len(want)} delivered messages match (close() called by the {who}, client state then: {getattr(s, 'state_at_close', None)})"


def _clients(ctx: Ctx, item=None):
    """Dumping switched on through each gateway client, link dropped and re-established in the middle: after close() the dump file holds
    the JSON of every delivered message that matches the dump filter, in order."""
    from .. import aio
    from .. import clientopts as co
    msgs = co.standard_traffic(co.CONVERTIBLE[:4] + co.FAST[:2] + co.KEYED[:3] + co.CONVERTIBLE[:4], sources=(1, 2))
    tmpdir = tempfile.mkdtemp(prefix="vfdumpc")
    try:
        for kind in aio.CLIENT_KINDS:
            for label, entries in (("all", []), ("[127250, 'windData']", [127250, "windData"])):
                for rc in ((), (6,), "closed-while-disconnected", "closed-by-status-callback", "closed-by-receive-callback"):
                    path = os.path.join(tmpdir, f"{kind}.jsonl")
                    if isinstance(rc, str):
                        who = {"closed-while-disconnected": "application", "closed-by-status-callback": "status-callback", "closed-by-receive-callback": "receive-callback"}[rc]
                        res_ = _close_while_disconnected(kind, msgs, path, entries, who)
                        ctx.count()
                        ctx.nontrivial_extra += 1
                        ctx.klass("client_dump_close_by:" + who)
                        if res_:
                            ctx.report(f"C15|client-{kind}|dump|{rc}", f"{kind} client with dump filter {label}, " + ("gateway gone, " if who != "receive-callback" else "") + f"close(): {res_}",
                                       {"clientopts": True, "kind": kind, "options": label, "reconnect": rc})
                        continue
                    if os.path.exists(path):
                        os.remove(path)
                    chunks = aio.render_messages(kind, msgs)
                    bounds, n = [], 0
                    for m in msgs:
                        bounds.append(n)
                        n += len(aio.render_messages(kind, [m]))
                    got, s = aio.client_passthrough(kind, chunks, {"dump_to_file": path, "dump_pgns": list(entries)}, reconnect_before={bounds[i] for i in rc})
                    ctx.count()
                    ctx.nontrivial_extra += 1
                    ctx.klass("client_dump_cases")
                    case = {"clientopts": True, "kind": kind, "options": label, "reconnect": list(rc)}
                    if s.outcome != "ok" or not got:
                        ctx.report(f"C15|client-{kind}|session", f"session ended with {s.outcome}, {len(got)} messages delivered", case)
                        continue
                    want = [strict_loads(m.to_json()) for m in got if not entries or m.PGN in entries or m.id in entries]
                    try:
                        with open(path) as f:
                            have = [strict_loads(l) for l in f.read().split("\n") if l]
                    except Exception as e:
                        ctx.report(f"C15|client-{kind}|dump-unreadable", f"{type(e).__name__}: {e}", case)
                        continue
                    if have != want:
                        ctx.report(f"C15|client-{kind}|dump|" + ("after-reconnect" if rc else "steady"),
                                   f"{kind} client with dump filter {label}" + (", link dropped and re-established in the middle" if rc else "")
                                   + f": dump has {len(have)} lines, {len(want)} delivered messages match the filter", case)
    finally:
        shutil.rmtree(tmpdir, ignore_errors=True)


def run(ctx: Ctx):
    pmap(ctx, _clients, [None])
    db = canboat.db()
    keys = [d.key for d in db.defs if d.supported]
    n = 8 if ctx.quick else 400
    shards = [keys[i::48] for i in range(48)]
    pmap(ctx, _work, [(s, n) for s in shards if s])
    pmap(ctx, _dump, [(25 if ctx.quick else 400,)] * 16)
    ctx.notes["decodable_definitions"] = len(keys)


def replay(ctx: Ctx, case):
    if case.get("clientopts"):
        from .. import clientopts as co
        return co.replay("C15", _clients, case)
    if "dump_pgns" in case:
        tmpdir = tempfile.mkdtemp(prefix="vfdump")
        try:
            res, _, _ = dump_case(case["dump_pgns"], [traffic.item_from_json(i) for i in case["items"]], tmpdir, case.get("exclude", ()), case.get("units", 0), case.get("netmap", False), case.get("relative", False))
        finally:
            shutil.rmtree(tmpdir, ignore_errors=True)
        return res
    ck = Checker(ctx)
    d = canboat.db().by_key[case["definition"]]
    data = bytes.fromhex(case["payload_hex"])
    via = case.get("via", "basic")
    res, _ = ck.check(d, int.from_bytes(data, "little"), len(data), case.get("with_identity", False), via=via)
    return res if via == "basic" else [(b if b.endswith(via) else b + "|" + via, w, c) for b, w, c in res]
