"""C10 - PGN include/exclude filters are a pure selection of the unfiltered output."""
from __future__ import annotations

from hypothesis import strategies as st

from .. import canboat, traffic
from ..common import Ctx, pmap

LEVEL = "exploration"
LEVEL_TEXT = ("Differential testing of a filtered decoder against an unfiltered one on the same generated history (single frames, "
              "interleaved fast-packet frames from several sources, address claims) for generated filter configurations (exclude / include; "
              "numbers, ids in any letter case, mixed, duplicates, with and without the address-claim PGN). Position-wise oracle "
              "F[i] == U[i] if permitted(U[i]) else nothing, compared on full content including the attached source identity.")
TECHNIQUE = "differential testing filtered vs unfiltered decoder over generated configurations x histories (Hypothesis)"
RULE = ("configuration {none, exclude, include} with 0..5 entries drawn from the traffic's PGN numbers / definition ids (original, lower, "
        "upper, swapped case), absent numbers/ids, 60928 / isoAddressClaim, duplicates x histories of 4..14 messages (frames interleaved, sibling definitions and sibling twins of multi-definition PGNs), wide histories with 3..2100 (thorough 66000) streams of filtered-out fast-packet traffic pending while a permitted message is assembled; "
        "oracle per position; non-trivial = configuration with >= 2 entries or an id entry or mixed kinds on a history where at least one "
        "message is dropped and one kept; distinct = (configuration, history)")
ASSUMPTIONS = [
    "permitted(m) = not(PGN in excl or id in excl) and (no include list or PGN in incl or id in incl), ids compared case-insensitively",
    "an input for which the unfiltered decoder raises counts as 'no message' on both sides",
    "source identity (from claims) is part of the compared content: this is how 'claims update the source map when filtered' is observed",
]


def swapcase(s):
    return s.swapcase()


@st.composite
def configs(draw, pgns, ids):
    mode = draw(st.sampled_from(["none", "exclude", "exclude", "include", "include"]))
    if mode == "none":
        return mode, []
    n = draw(st.integers(0, 5))
    entries = []
    for _ in range(n):
        k = draw(st.sampled_from(["num", "num", "id", "id", "absent_num", "absent_id", "claim_num", "claim_id"]))
        if k == "num":
            entries.append(draw(st.sampled_from(pgns)))
        elif k == "id":
            i = draw(st.sampled_from(ids))
            entries.append(draw(st.sampled_from([i, i.lower(), i.upper(), swapcase(i)])))
        elif k == "absent_num":
            entries.append(draw(st.sampled_from([127251, 130310, 99999])))
        elif k == "absent_id":
            entries.append(draw(st.sampled_from(["rateOfTurn", "noSuchDefinition"])))
        elif k == "claim_num":
            entries.append(60928)
        else:
            entries.append(draw(st.sampled_from(["isoAddressClaim", "isoaddressclaim", "ISOADDRESSCLAIM"])))
    if draw(st.booleans()) and entries:
        entries.append(draw(st.sampled_from(entries)))
    return mode, entries


def permitted(m, mode, entries, wire_pgn=None):
    """Decided on the PGN the frame carried on the wire (the message's own PGN attribute must agree with it, see run_case)."""
    nums = {e for e in entries if isinstance(e, int)}
    ids = {e.lower() for e in entries if isinstance(e, str)}
    pgn = wire_pgn if wire_pgn is not None else m.PGN
    if mode == "exclude":
        return not (pgn in nums or m.id.lower() in ids)
    if mode == "include" and entries:
        return pgn in nums or m.id.lower() in ids
    return True


def run_case(mode, entries, items, build_map=False):
    from nmea2000.decoder import NMEA2000Decoder
    kw = {}
    if mode == "exclude":
        kw["exclude_pgns"] = list(entries)
    elif mode == "include":
        kw["include_pgns"] = list(entries)
    U = NMEA2000Decoder(build_network_map=build_map)
    F = NMEA2000Decoder(build_network_map=build_map, **kw)
    out = []
    dropped = kept = 0
    case = {"mode": mode, "entries": list(entries), "items": [traffic.item_json(i) for i in items]}
    for pos, it in enumerate(items):
        try:
            u = traffic.feed(U, it)
        except Exception:
            u = None
        try:
            f = traffic.feed(F, it)
            ferr = None
        except Exception as e:
            f, ferr = None, e
        if u is None:
            if f is not None:
                out.append((f"C10|{mode}|message-from-nothing", f"position {pos}: unfiltered decoder returns nothing, filtered returns {f.id}", case))
            continue
        if it.get("pgn") and u.PGN != it["pgn"]:
            out.append((f"C10|{mode}|message-pgn", f"position {pos}: a frame of PGN {it['pgn']} was returned as a message of PGN {u.PGN} ({u.id})", case))
        ok = permitted(u, mode, entries, it.get("pgn") or None)
        kind = "claim" if u.PGN == 60928 else "data"
        by = "mixed" if any(isinstance(e, int) for e in entries) and any(isinstance(e, str) for e in entries) else \
            "ids" if any(isinstance(e, str) for e in entries) else "numbers"
        if ok:
            kept += 1
            if f is None:
                out.append((f"C10|{mode}|{by}|{kind}|permitted-dropped", f"position {pos}: {u.PGN}/{u.id} is permitted by {mode} {entries} but was not returned"
                            + (f" ({type(ferr).__name__}: {ferr})" if ferr else ""), case))
            elif traffic.canon(f) != traffic.canon(u):
                a, b = traffic.canon(f), traffic.canon(u)
                what = "identity" if a[:6] == b[:6] else "content"
                out.append((f"C10|{mode}|{by}|{kind}|{what}-changed", f"position {pos}: {u.PGN}/{u.id} differs between filtered and unfiltered decoder ({what})", case))
        else:
            dropped += 1
            if f is not None:
                out.append((f"C10|{mode}|{by}|{kind}|forbidden-returned", f"position {pos}: {u.PGN}/{u.id} is not permitted by {mode} {entries} but was returned", case))
    return out, dropped, kept


def _work(ctx: Ctx, item):
    n, = item
    db = canboat.db()
    keys = traffic.SINGLE_KEYS + traffic.FAST_KEYS
    pgns = sorted({db.by_key[k].pgn for k in keys})
    ids = sorted({db.by_key[k].id for k in keys}) + traffic.twin_ids()
    pgns = sorted(set(pgns) | set(traffic.TWIN_PGNS) | {65240})
    ids = ids + ["isoCommandedAddress"]

    def one(cfg, items, build_map):
        mode, entries = cfg
        ctx.count()
        res, dropped, kept = run_case(mode, entries, items, build_map)
        rich = len(entries) >= 2 or any(isinstance(e, str) for e in entries)
        if rich and dropped and kept:
            ctx.nt((mode, tuple(map(str, entries)), tuple((i["pgn"], i["src"], i["data"]) for i in items)))
        ctx.klass("mode:" + mode)
        if any(isinstance(e, str) for e in entries) and any(isinstance(e, int) for e in entries):
            ctx.klass("mixed_entries")
        elif any(isinstance(e, str) for e in entries):
            ctx.klass("id_entries_only")
        if dropped and kept:
            ctx.klass("history_with_dropped_and_kept")
        if ctx.evaluations % 50 == 1:
            ctx.sample({"mode": mode, "entries": entries, "frames": len(items), "dropped": dropped, "kept": kept})
        return res

    ctx.hyp(one, configs(pgns, ids), traffic.history(twins=True, time_passes=True, commanded=True, repeat_seq=True), st.booleans(), max_examples=n, name="filters")


def _twins(ctx: Ctx, item):
    """Systematic: every ordered pair of sibling definitions whose payloads can agree on everything but the second one's match
    fields, as the history [a, b, a, b], filtered by id in the four obvious ways."""
    from .. import gen, wire
    pgn, = item
    db = canboat.db()
    ds = [d for d in db.by_pgn[pgn] if d.supported and d.fixed_layout and d.matches]
    n = 0
    for d1 in ds:
        p1, nb, _ = gen.benign_payload(d1)
        for d2 in ds:
            if d2 is d1:
                continue
            p2 = p1
            for off, bits, mv, _ in d2.matches:
                p2 = (p2 & ~(((1 << bits) - 1) << off)) | (mv << off)
            nb2 = max(nb, d2.nbytes())
            if db.select(pgn, p1) is not d1 or db.select(pgn, p2) is not d2:
                continue
            for same_seq in (False, True):
                # (same_seq: a sender that restarts between its messages - every message carries sequence counter 5)
                items = []
                dest = 255 if ((pgn >> 8) & 0xFF) >= 240 else 7
                for rep, (dd, pp, nn) in enumerate(((d1, p1, nb), (d2, p2, nb2), (d1, p1, nb), (d2, p2, nb2))):
                    payload = pp.to_bytes(nn, "little")[:223]
                    if dd.fast:
                        items += [{"kind": "fastframe", "pgn": pgn, "src": 1, "dest": dest, "data": fr, "msg": rep, "frame": i}
                                  for i, fr in enumerate(wire.segment(payload, 5 if same_seq else rep))]
                    else:
                        items.append({"kind": "single", "pgn": pgn, "src": 1, "dest": dest, "data": payload[:8], "msg": rep})
                if same_seq and not any(dd.fast for dd in (d1, d2)):
                    continue
                for mode, entries in (("exclude", [d1.id]), ("exclude", [d2.id.upper()]), ("include", [d2.id]), ("include", [d1.id.lower(), 127250]),
                                  ("exclude", [pgn - 1, pgn + 1]), ("include", [pgn - 1, pgn + 1, 127250]), ("exclude", [pgn]), ("include", [pgn])):
                    ctx.count()
                    n += 1
                    ctx.nt((pgn, d1.id, d2.id, mode))
                    res, dropped, kept = run_case(mode, entries, items)
                    for b, w, c in res:
                        ctx.report(b + "|twins", w, c)
    ctx.klass("systematic_twin_cases", n)


WIDE_FILLERS = ["126996/productInformation", "127489/engineParametersDynamic", "128275/distanceLog", "129540/gnssSatsInView",
                "127506/dcDetailedStatus", "129285/navigationRouteWpInformation", "130577/directionData", "129038/aisClassAPositionReport",
                "129809/aisClassBStaticDataMsg24PartA"]


def wide_items(width, stall=0.0):
    """A permitted fast-packet message whose frames straddle `width` first frames of other fast PGNs (each on its own stream, never
    completed), then a second permitted message and a single frame."""
    from .. import gen, wire
    db = canboat.db()
    main = db.by_key["129029/gnssPositionData"]
    mp, mn, _ = gen.benign_payload(main)
    mf = wire.segment(mp.to_bytes(mn, "little"), 3)
    items = [{"kind": "fastframe", "pgn": main.pgn, "src": 1, "dest": 255, "data": mf[0], "msg": 0, "frame": 0}]
    if stall:
        # the link stalls inside the permitted message (real time passes), then the other traffic and the rest of the message arrive
        items.append({"kind": "warp", "pgn": 0, "src": 0, "dest": 0, "data": b"", "msg": -1, "seconds": stall})
    fill = []
    for k in WIDE_FILLERS:
        d = db.by_key[k]
        p, n, _ = gen.benign_payload(d)
        fill.append((d, wire.segment(p.to_bytes(n, "little"), 1)[0]))
    for i in range(width):
        d, fr = fill[i % len(fill)]
        items.append({"kind": "fastframe", "pgn": d.pgn, "src": 2 + (i // len(fill)) % 250, "dest": 255, "data": fr, "msg": 1 + i, "frame": 0})
    items += [{"kind": "fastframe", "pgn": main.pgn, "src": 1, "dest": 255, "data": fr, "msg": 0, "frame": i} for i, fr in enumerate(mf) if i]
    mf2 = wire.segment(mp.to_bytes(mn, "little"), 4)
    items += [{"kind": "fastframe", "pgn": main.pgn, "src": 1, "dest": 255, "data": fr, "msg": width + 1, "frame": i} for i, fr in enumerate(mf2)]
    vh = db.by_key["127250/vesselHeading"]
    p, n, _ = gen.benign_payload(vh)
    items.append({"kind": "single", "pgn": 127250, "src": 1, "dest": 255, "data": p.to_bytes(n, "little")[:8], "msg": width + 2})
    return items


def wide_configs():
    db = canboat.db()
    nums = [db.by_key[k].pgn for k in WIDE_FILLERS]
    ids = [db.by_key[k].id for k in WIDE_FILLERS]
    return [("exclude", nums), ("exclude", ids), ("include", [129029, "vesselheading"]), ("include", ["gnssPositionData", 127250]),
            ("exclude", nums[:4] + ids[4:])]


def _wide(ctx: Ctx, item):
    """Many streams of filtered-out fast-packet traffic pending at once (a decoder's reassembly state is per stream): the permitted
    message that straddles them must come out of the filtered and the unfiltered decoder alike."""
    width, ci = item[:2]
    stall = item[2] if len(item) > 2 else 0.0
    mode, entries = wide_configs()[ci]
    items = wide_items(width, stall)
    ctx.count()
    ctx.nt(("wide", width, ci))
    ctx.klass("wide_history")
    ctx.klass(f"wide_width_{width}")
    res, dropped, kept = run_case(mode, entries, items)
    if kept < 3:
        ctx.report("C10|wide|unfiltered-lost", f"width {width}: the unfiltered decoder returned {kept} of the 3 permitted messages", {"wide": width, "config": ci, "stall": stall})
    for b, w, c in res:
        ctx.report(b + "|wide", w + f" (history of {width} pending filtered-out streams" + (f", {stall} s stall inside the permitted message" if stall else "") + ")",
                   {"wide": width, "config": ci, "stall": stall})


def _commanded(ctx: Ctx, item=None):
    """Systematic: a device claims, is commanded to another address (PGN 65240 naming its NAME), then sends from both addresses; the
    permitted messages of a filtered decoder equal the unfiltered decoder's, sender identity included."""
    from .. import gen
    db = canboat.db()
    nm = traffic.iso_name(4711, 137)
    vh = db.by_key["127250/vesselHeading"]
    p, n, _ = gen.benign_payload(vh)
    data = p.to_bytes(n, "little")[:8]
    items = [{"kind": "claim", "pgn": 60928, "src": 4, "dest": 255, "data": nm.to_bytes(8, "little"), "msg": 0, "name": nm},
             {"kind": "single", "pgn": 127250, "src": 4, "dest": 255, "data": data, "msg": 1},
             {"kind": "combined", "pgn": 65240, "src": 9, "dest": 255, "data": nm.to_bytes(8, "little") + bytes([6]), "msg": 2},
             {"kind": "single", "pgn": 127250, "src": 6, "dest": 255, "data": data, "msg": 3},
             {"kind": "single", "pgn": 127250, "src": 4, "dest": 255, "data": data, "msg": 4}]
    for mode, entries in (("exclude", [65240]), ("exclude", ["isoCommandedAddress"]), ("include", [127250]), ("include", ["vesselHeading", 60928]),
                          ("exclude", [130306])):
        for bm in (False, True):
            ctx.count()
            ctx.nontrivial_extra += 1
            res, _, _ = run_case(mode, entries, items, bm)
            for b, w, c in res:
                ctx.report(b + "|commanded-address", w, c)
    ctx.klass("commanded_address_scenarios")
    # the same address is claimed again with a NAME that differs in ONE sub-field (an installer renumbers an instance, a device is swapped
    # for its sibling): data sent afterwards carries the new identity - also in a decoder that filters the claims themselves out
    base = traffic.iso_name(4711, 137, 1, 2, 130, 25, 3, 4, 0)
    variants = [("uniqueNumber", base ^ 1), ("uniqueNumber-high", base ^ (1 << 20)), ("manufacturer", (base & ~(0x7FF << 21)) | (traffic.MANUFACTURERS[1][0] << 21)),
                ("deviceInstanceLower", base ^ (1 << 32)), ("deviceInstanceLower-high", base ^ (4 << 32)), ("deviceInstanceUpper", base ^ (1 << 35)),
                ("deviceInstanceUpper-high", base ^ (0x10 << 35)), ("function", (base & ~(0xFF << 40)) | (140 << 40)), ("deviceClass", (base & ~(0x7F << 49)) | (30 << 49)),
                ("systemInstance", base ^ (1 << 56)), ("systemInstance-high", base ^ (8 << 56)), ("arbitraryAddressCapable", base ^ (1 << 63)),
                ("same", base)]
    for what, nm2 in variants:
        if nm2 == base and what != "same":
            continue
        hist = [{"kind": "claim", "pgn": 60928, "src": 4, "dest": 255, "data": base.to_bytes(8, "little"), "msg": 0, "name": base},
                {"kind": "single", "pgn": 127250, "src": 4, "dest": 255, "data": data, "msg": 1},
                {"kind": "claim", "pgn": 60928, "src": 4, "dest": 255, "data": nm2.to_bytes(8, "little"), "msg": 2, "name": nm2},
                {"kind": "single", "pgn": 127250, "src": 4, "dest": 255, "data": data, "msg": 3},
                {"kind": "claim", "pgn": 60928, "src": 4, "dest": 255, "data": base.to_bytes(8, "little"), "msg": 4, "name": base},
                {"kind": "single", "pgn": 127250, "src": 4, "dest": 255, "data": data, "msg": 5}]
        for mode, entries in (("exclude", [60928]), ("exclude", ["isoAddressClaim"]), ("exclude", ["ISOADDRESSCLAIM", 130306]), ("include", [127250]),
                              ("include", ["vesselHeading"]), ("include", ["vesselHeading", 60928]), ("exclude", [130306])):
            for bm in (False, True):
                ctx.count()
                ctx.nontrivial_extra += 1
                res, _, _ = run_case(mode, entries, hist, bm)
                for b, w, c in res:
                    ctx.report(b + f"|reclaim-{what}", w, c)
    ctx.klass("reclaim_one_subfield_scenarios", len(variants))


def _clients(ctx: Ctx, item=None):
    """Filters handed to each gateway client (numbers, ids in any letter case, mixed): the client delivers what a bare decoder with the
    same filters returns."""
    from .. import clientopts as co
    msgs = co.standard_traffic(co.CONVERTIBLE[:4] + co.FAST + co.KEYED[:3], sources=(1, 2))
    sets = [("exclude_pgns=[130306, 'VESSELHEADING']", lambda: {"exclude_pgns": [130306, "VESSELHEADING"]}),
            ("include_pgns=['gnsspositiondata', 127505, 'isoAddressClaim']", lambda: {"include_pgns": ["gnsspositiondata", 127505, "isoAddressClaim"]}),
            ("exclude_pgns=[60928, 'fluidLevel'], build_network_map=True", lambda: {"exclude_pgns": [60928, "fluidLevel"], "build_network_map": True}),
            ("include_pgns=[129029]", lambda: {"include_pgns": [129029]})]
    co.run(ctx, "C10", sets, msgs, reconnects=((), (5,)))

def run(ctx: Ctx):
    pmap(ctx, _clients, [None])
    pmap(ctx, _commanded, [None])
    db0 = canboat.db()
    widths = [3, 60, 300, 1030, 2100] if ctx.quick else [3, 60, 300, 1030, 2100, 4200, 9000, 20000, 66000]
    pmap(ctx, _wide, [(w, ci) for w in widths for ci in range(len(wide_configs()))]
         + [(w, ci, st_) for w in (1, 3, 60) for ci in range(len(wide_configs())) for st_ in (2.0, 45.0, 700.0)])
    pmap(ctx, _twins, [(p,) for p, ds in db0.by_pgn.items() if len(ds) > 1])
    n = 150 if ctx.quick else 6000
    pmap(ctx, _work, [(n,)] * 16)


def replay(ctx: Ctx, case):
    if case.get("clientopts"):
        from .. import clientopts as co
        return co.replay("C10", _clients, case)
    if "wide" in case:
        mode, entries = wide_configs()[case["config"]]
        res, _, kept = run_case(mode, entries, wide_items(case["wide"], case.get("stall", 0.0)))
        out = [(b + "|wide", w, case) for b, w, c in res]
        if kept < 3:
            out.append(("C10|wide|unfiltered-lost", "the unfiltered decoder lost a permitted message", case))
        return out
    res, _, _ = run_case(case["mode"], case["entries"], [traffic.item_from_json(i) for i in case["items"]])
    res2, _, _ = run_case(case["mode"], case["entries"], [traffic.item_from_json(i) for i in case["items"]], True)
    out = res + [r for r in res2 if r[0] not in {x[0] for x in res}]
    return out + [(b + "|twins", w, c) for b, w, c in out] + [(b + "|commanded-address", w, c) for b, w, c in out]
