"""C02 - decoding then re-encoding a payload reproduces it on all defined bits."""
from __future__ import annotations

import math

from .. import canboat, gen
from ..common import Ctx, pmap

LEVEL = "exploration"
LEVEL_TEXT = ("Round trip decode -> encode through the public API for all encodable definitions: exhaustive over every raw value of every "
              "field of <= 16 bits (thorough; quick: every field <= 8 bits plus one representative field per (type,width,sign,resolution,"
              "offset) class of the wider ones), boundary classes of every field, and Hypothesis combinations of accepted classes. "
              "Exploration: wide fields are sampled at boundaries and random raws only.")
TECHNIQUE = "round-trip property (decode then encode) with exhaustive per-field raw sweeps and Hypothesis class combinations"
RULE = ("encodable definitions x decoder-accepted payloads built from in-range classes (range ends, zero, not-available, just-in) and "
        "exhaustive raw sweeps of narrow fields with the other fields benign, on an encoder instance that has a history of the PGN's other definitions; oracle: bits of every field equal (<=48 bits exact; wider within "
        "1+|raw|*2^-50; FLOAT bit-exact unless non-finite), payload length = database Length; non-trivial = a boundary class in the payload "
        "or a case of an exhaustive sweep; distinct = (definition, payload)")
ASSUMPTIONS = [
    "payloads the decoder rejects or returns nothing for are outside the property (counted as 'rejected')",
    "unassigned bits are not compared; trailing zero bytes dropped by an encoder without database Length are compared as integer bits",
    "payload observed through encode_actisense (hex of whole payload) and, for single-frame PGNs, encode_ebyte data bytes",
]


class Checker:
    def __init__(self, ctx: Ctx):
        from nmea2000.decoder import NMEA2000Decoder
        from nmea2000.encoder import NMEA2000Encoder
        self.ctx = ctx
        self.dec = NMEA2000Decoder()
        self.enc = NMEA2000Encoder()
        self.db = canboat.db()
        # another decoder of the process, built the same way, is reconfigured in place by its owner (units switched at runtime)
        from nmea2000.consts import PhysicalQuantities as _PQ
        self.other = NMEA2000Decoder()
        if isinstance(getattr(self.other, "preferred_units", None), dict):
            self.other.preferred_units.update({_PQ.TEMPERATURE: "c", _PQ.ANGLE: "deg", _PQ.SPEED: "kts", _PQ.PRESSURE: "bar"})

    def roundtrip(self, d, payload, nbytes, classes=()):
        ctx = self.ctx
        case = {"definition": d.key, "payload_hex": payload.to_bytes(nbytes, "little").hex(), "classes": list(classes)}
        from ..common import HangDetected, hang_guard
        try:
            with hang_guard(20.0):
                msg = self.dec.decode_basic_string(gen.basic_string(d.pgn, payload, nbytes), already_combined=True)
        except HangDetected:
            return [(f"C02|never-returns|{d.key}", "the decoder did not return within 20 s of real time", case)]
        except Exception:
            ctx.klass("rejected")
            return []
        if msg is None or msg.id != d.id:
            ctx.klass("rejected")
            return []
        ctx.klass("accepted")
        out = []
        try:
            text = self.enc.encode_actisense(msg)
        except Exception as e:
            fid = self._culprit(d, msg, e)
            return [(f"C02|encode-error|{d.key}/{fid}|{type(e).__name__}:{str(e)[:50]}",
                     f"decoded message cannot be re-encoded: {type(e).__name__}: {e}", case)]
        parts = text.split(" ")
        data = bytes.fromhex(parts[2]) if len(parts) > 2 else b""
        out += self.compare(d, payload, data, case, "actisense")
        if d.fast:
            # the frame formats carry the same payload as the whole-message format: length byte = payload length, data = payload
            for name, fn, off in (("ebyte", self.enc.encode_ebyte, 5), ("usb", self.enc.encode_usb, 10)):
                try:
                    pks = fn(msg)
                    frames = [p[off:off + ((p[0] & 0x0F) if name == "ebyte" else p[9])] for p in pks]
                    body = b"".join(fr[2:] if i == 0 else fr[1:] for i, fr in enumerate(frames))
                    announced = frames[0][1] if frames and len(frames[0]) > 1 else None
                    if announced != len(data) or body[:len(data)] != data or any(body[len(data):].strip(b"\xff")):
                        out.append((f"C02|{name}-frames-differ|{d.key}", f"encode_{name} frames announce {announced} bytes and carry {body.hex()[:80]}, encode_actisense payload is "
                                    f"{len(data)} bytes {data.hex()[:80]}", case))
                except Exception as e:
                    out.append((f"C02|encode-error-{name}|{d.key}", f"encode_{name} failed: {e}", case))
        if not d.fast:
            try:
                pk = self.enc.encode_ebyte(msg)
                data2 = pk[0][5:5 + (pk[0][0] & 0x0F)]
                if data2 != data:
                    out.append((f"C02|ebyte-differs|{d.key}", f"encode_ebyte data {data2.hex()} != encode_actisense payload {data.hex()}", case))
            except Exception as e:
                out.append((f"C02|encode-error-ebyte|{d.key}", f"encode_ebyte failed: {e}", case))
        if not out and payload % 7 == 3:
            # the application writes into the message it was handed (shifts a value, clears another) ... and the same payload arrives
            # again: its round trip must not notice
            for k, fld in enumerate(msg.fields):
                if k % 2:
                    fld.value = fld.raw_value = None
                elif isinstance(fld.value, (int, float)) and not isinstance(fld.value, bool):
                    fld.value = fld.raw_value = fld.value + 1
            try:
                msg2 = self.dec.decode_basic_string(gen.basic_string(d.pgn, payload, nbytes), already_combined=True)
                text2 = self.enc.encode_actisense(msg2)
                p2 = text2.split(" ")
                data_again = bytes.fromhex(p2[2]) if len(p2) > 2 else b""
            except Exception as e:
                data_again = None
                out.append((f"C02|repeat-after-caller-edit|{d.key}", f"the same payload decoded again after the caller edited the first result: {type(e).__name__}: {e}", case))
            if data_again is not None and data_again != data:
                out.append((f"C02|repeat-after-caller-edit|{d.key}", f"the same payload decoded again after the caller edited the first result re-encodes as "
                            f"{data_again.hex()} instead of {data.hex()}", dict(case, repeat_after_edit=True)))
            self.ctx.klass("repeat_after_caller_edit")
        return out

    def _culprit(self, d, msg, e):
        """Which field makes the encoder fail: re-encode with each field in turn replaced by a benign one."""
        tb = e.__traceback__
        name = "?"
        s = str(e)
        for f in d.fields:
            if f.id and (f"'{f.id}'" in s):
                return f.id
        # fall back: the first field whose value alone is refused
        from nmea2000.message import NMEA2000Message
        benign = gen.benign_message(d)
        if benign is None:
            return name
        for i, f in enumerate(d.fields):
            fields = list(benign.fields)
            fields[i] = msg.fields[i]
            try:
                self.enc.encode_actisense(NMEA2000Message(PGN=d.pgn, id=d.id, fields=fields, source=1, destination=255, priority=3))
            except Exception:
                return f.id
        return name

    def compare(self, d, payload, data, case, via):
        out = []
        if d.length is not None and len(data) != d.length:
            out.append((f"C02|length|{d.key}", f"re-encoded payload has {len(data)} bytes, definition length is {d.length}", case))
        back = int.from_bytes(data, "little")
        for f in d.fields:
            m = (1 << f.bits) - 1
            a = (payload >> f.offset_bits) & m
            b = (back >> f.offset_bits) & m
            if a == b:
                continue
            if f.type == "FLOAT":
                v = canboat.f32(a)
                if v != v or v in (float("inf"), float("-inf")):
                    continue
                kind = "float"
            elif f.bits > 48:
                sa, sb = f.to_signed(a), f.to_signed(b)
                if abs(sa - sb) <= 1 + abs(sa) * 2.0 ** -50:
                    continue
                kind = "wide"
            else:
                na = f.na_code()
                if na is not None and a == na:
                    kind = "absent"
                elif f.type in ("TIME", "DURATION"):
                    kind = "ticks"
                elif f.signed and (a >> (f.bits - 1)) != (b >> (f.bits - 1)):
                    kind = "sign"
                else:
                    kind = "bits"
            out.append((f"C02|{kind}|{d.key}/{f.id}", f"{f.id} ({f.type}, {f.bits} bits at {f.offset_bits}): raw {a:#x} came back as {b:#x}", case))
        return out


def field_class_key(f):
    return (f.type, f.bits, f.signed, str(f.res_lit), str(f.offset))


def _sweep_field(ctx: Ctx, ck: Checker, d, f, bp, bn, step=1):
    """Every raw value of field f (others benign)."""
    m = ((1 << f.bits) - 1) << f.offset_bits
    base = bp & ~m
    n = 0
    for u in range(0, 1 << f.bits, step):
        for b, w, c in ck.roundtrip(d, base | (u << f.offset_bits), bn, ("exhaustive:" + f.id,)):
            ctx.report(b, w, c)
        n += 1
    ctx.count(n)
    ctx.nontrivial_extra += n
    ctx.klass("exhaustive_field_values", n)
    ctx.notes["fields_swept_exhaustively"] = ctx.notes.get("fields_swept_exhaustively", 0) + 1


def _work(ctx: Ctx, item):
    keys, n_hyp, max_bits, reps = item
    ck = Checker(ctx)
    db = canboat.db()
    for key in keys:
        d = db.by_key[key]
        bp, bn, _ = gen.benign_payload(d)
        # the (shared) encoder has a history: it has been handed decoded messages of this PGN's other definitions, including the
        # ones it legitimately refuses (variable-length / unsupported field types); that must not change what it does for d
        for sib in db.by_pgn[d.pgn]:
            if sib is not d and sib.supported:
                m = gen.benign_message(sib)
                if m is not None:
                    try:
                        ck.enc.encode_actisense(m)
                    except Exception:
                        ctx.klass("sibling_refused_by_encoder")

        def one(p, d=d):
            payload, nbytes, classes = p
            ctx.count()
            if any(c in gen.BOUNDARY for c in classes):
                ctx.nt((d.key, payload))
            return ck.roundtrip(d, payload, nbytes, classes)

        for f in d.fields:
            if f.match is not None:
                continue
            if f.bits <= max_bits or (f.bits <= 16 and (d.key, f.index) in reps):
                _sweep_field(ctx, ck, d, f, bp, bn)
            # boundary classes, one each, others benign
            for cname, spec in gen.field_classes(d, f).items():
                if cname in gen.IN_CLASSES and isinstance(spec, int):
                    mm = ((1 << f.bits) - 1) << f.offset_bits
                    for b, w, c in one(((bp & ~mm) | (spec << f.offset_bits), bn, [cname])):
                        ctx.report(b, w, c)
                elif cname in ("source_constant", "magnitude_edge") and f.offset_bits is not None:
                    # every listed in-range raw: library literals and magnitudes (2^k, 10^k, +-1; as raw and as value)
                    mm = ((1 << f.bits) - 1) << f.offset_bits
                    for v in spec[1]:
                        for b, w, c in one(((bp & ~mm) | (v << f.offset_bits), bn, [cname])):
                            ctx.report(b, w, c)
        ctx.hyp(one, gen.payloads(d, mode="accepted", extra_bytes=False), max_examples=n_hyp, name="accepted")
        if d.index % 30 == 0:
            ctx.sample({"definition": key, "payload_hex": bp.to_bytes(bn, "little").hex(), "fields": [f.id for f in d.fields][:8]})


def _aged_encoder(ctx: Ctx, item):
    """An encoder that has been handed a message of every definition (encodable or not) encodes like a fresh one."""
    from nmea2000.decoder import NMEA2000Decoder
    from nmea2000.encoder import NMEA2000Encoder
    part, parts, n = item
    db = canboat.db()
    aged = NMEA2000Encoder()
    for d in db.defs:
        m = gen.benign_message(d) if d.supported else None
        if m is None:
            continue
        for fn in (aged.encode_actisense, aged.encode_ebyte, aged.encode_usb, aged.encode_yacht_devices):
            try:
                fn(m)
            except Exception:
                pass
    # the messages come from a decoder with network mapping on (sender has claimed): they carry the sender's identity and a hash, and -
    # read from log lines - all the same timestamp
    from .. import traffic
    dec = NMEA2000Decoder(build_network_map=True)
    dec.decode_tcp(traffic.render({"pgn": 60928, "src": 1, "dest": 255, "data": traffic.iso_name(4242, 137).to_bytes(8, "little")}))
    keys = [d.key for d in db.defs if d.encodable and d.pgn != 60928][part::parts]

    def strip(pk_list, fast):
        # the sequence counter of fast-packet frames legitimately differs between two encoder instances
        return [p.hex() for p in pk_list] if not fast else [p[:5].hex() + "%02x" % (p[5] & 0x1F) + p[6:].hex() for p in pk_list]
    for key in keys:
        d = db.by_key[key]

        def one(p, d=d):
            payload, nbytes, classes = p
            ctx.count()
            try:
                m = dec.decode_basic_string(gen.basic_string(d.pgn, payload, nbytes), already_combined=True)
            except Exception:
                return []
            if m is None or m.id != d.id:
                return []
            ctx.nt((d.key, payload, "aged-encoder"))
            outs = []
            for e in (aged, NMEA2000Encoder()):
                try:
                    outs.append((e.encode_actisense(m), strip(e.encode_ebyte(m), d.fast)))
                except Exception as ex:
                    outs.append(("error", type(ex).__name__, str(ex)[:60]))
            if outs[0] != outs[1]:
                return [(f"C02|aged-encoder|{d.key}", f"an encoder that has seen every definition produces {str(outs[0])[:120]}, a fresh one {str(outs[1])[:120]}",
                         {"definition": d.key, "payload_hex": payload.to_bytes(nbytes, "little").hex(), "aged_encoder": True})]
            return []
        ctx.hyp(one, gen.payloads(d, mode="accepted", extra_bytes=False), max_examples=n, name="aged-encoder", shrink=False, rounds=2)
    ctx.klass("aged_encoder_definitions", len(keys))


def run(ctx: Ctx):
    db = canboat.db()
    pmap(ctx, _aged_encoder, [(i, 16, 4 if ctx.quick else 100) for i in range(16)])
    enc = [d for d in db.defs if d.encodable]
    reps = set()
    if ctx.quick:
        seen = set()
        for d in enc:
            for f in d.fields:
                if 8 < f.bits <= 16 and f.match is None:
                    k = field_class_key(f)
                    if k not in seen:
                        seen.add(k)
                        reps.add((d.key, f.index))
        ctx.notes["representative_wide_classes"] = len(seen)
    max_bits = 8 if ctx.quick else 16
    n_hyp = 40 if ctx.quick else 2000
    keys = [d.key for d in enc]
    # balance: sort by sweep cost, deal round-robin
    def cost(d):
        return sum((1 << f.bits) for f in d.fields if f.match is None and (f.bits <= max_bits or (d.key, f.index) in reps))
    order = sorted(enc, key=cost, reverse=True)
    nshards = 64
    shards = [[d.key for d in order[i::nshards]] for i in range(nshards)]
    pmap(ctx, _work, [(s, n_hyp, max_bits, reps) for s in shards if s])
    ctx.notes["encodable_definitions"] = len(keys)
    ctx.exhaustive = False
    ctx.notes["exhaustive_part"] = f"every raw value of every field of <= {max_bits} bits" + (" + one representative 9..16-bit field per class" if ctx.quick else "")


def replay(ctx: Ctx, case):
    if case.get("aged_encoder"):
        sub = Ctx(ctx.pid)
        sub.known_open = {}
        holder = []
        d = canboat.db().by_key[case["definition"]]
        data = bytes.fromhex(case["payload_hex"])

        def fake(check, *a, **k):
            if check.__defaults__ and check.__defaults__[0] is d:
                holder.extend(check((int.from_bytes(data, "little"), len(data), [])))
        sub.hyp = fake
        idx = [x.key for x in canboat.db().defs if x.encodable].index(d.key)
        _aged_encoder(sub, (idx % 16, 16, 1))
        return holder
    ck = Checker(ctx)
    d = canboat.db().by_key[case["definition"]]
    data = bytes.fromhex(case["payload_hex"])
    return ck.roundtrip(d, int.from_bytes(data, "little"), len(data), case.get("classes", ()))
