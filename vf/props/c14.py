"""C14 - close() is final and status notifications are faithful."""
from __future__ import annotations

import asyncio

from hypothesis import strategies as st

from .. import aio
from ..common import Ctx, pmap
from .c13 import valid_packet

LEVEL = "fault_enumeration"
LEVEL_TEXT = ("close() is issued at enumerated event-loop steps of nine session shapes (never connected, connect awaiting the transport, "
              "retry wait, connected idle, mid-packet, inside a receive callback, during a send under back-pressure, right after a "
              "fault, reset with concurrent sends) for the four clients and three status-callback behaviours, followed by post-close stimuli (connect(), send(), "
              "gateway accepting, data, end of stream) and 60 virtual seconds of settling. Monitors at every loop step check CLOSED "
              "forever, no new connection attempt, no callback after close() returned, all links shut, no client task left, and the "
              "faithfulness of the status trace; a raising status callback must be indistinguishable from a plain one. Thorough "
              "enumerates every step of every shape; quick a stride plus Hypothesis-chosen steps.")
TECHNIQUE = "schedule enumeration (close() at every event-loop step of each session shape) with invariants checked at every loop step; metamorphic comparison of status-callback behaviours"
RULE = ("shape x client x close step k x status callback {plain, raise, slow}, plus link events (data / EOF / reset / Sorry,Limited) injected 0..4 loop steps after close() is entered, plus close() called 0.1 virtual s before each of the first four pending loop timers expires (reconnect back-off, busy-gateway pause of 30 s, retry) in six shapes; oracle: from the step close() is entered state == CLOSED at "
        "every loop step and no connection attempt is initiated; after close() returns no receive callback, every link closed, no client "
        "task pending after settling; status trace has no two equal consecutive entries, contains the polled state sequence as a "
        "subsequence and ends in the final state; raising callback run == plain run on attempts/bytes/deliveries/state polls; "
        "non-trivial = close at a step where a connect attempt, retry wait, callback or send is outstanding; distinct = (shape, client, k, mode)")
ASSUMPTIONS = [
    "shapes are bounded sessions (<= 15 virtual s before close, 60 s settling); a step index beyond the end of a shape closes at its end",
    "client tasks are recognised by their coroutine names (connect, _receive_loop, _process_queue, send, _seed_network_map, close)",
]

SHAPES = ("never_connected", "connect_in_flight", "retry_wait", "connected_idle", "mid_packet", "in_callback", "during_send", "after_fault",
          "reset_and_send", "write_fault", "busy_closed_send", "dump_device_full", "in_nested_callback")
# shapes only used by the close-before-timer pass (a client-internal timer is pending: back-off, busy-gateway pause, connect retry)
TIMER_SHAPES = ("retry_wait", "after_fault", "busy_backoff", "connect_in_flight", "connected_idle", "reset_and_send")
CLIENT_TASKS = ("connect", "_receive_loop", "_process_queue", "send", "_seed_network_map", "close", "_receive_impl")


def iso_request():
    from nmea2000.message import NMEA2000Field, NMEA2000Message
    return NMEA2000Message(PGN=59904, id="isoRequest", fields=[NMEA2000Field(id="pgn", value=60928, raw_value=60928)], source=0, destination=255, priority=6)


def run_case(kind, shape, k, mode, post=("connect", "send", "data", "eof"), during=None):
    plan = {"never_connected": [("accept",)], "connect_in_flight": [("accept", 2.0)], "retry_wait": [("refuse",)] * 6 + [("accept",)]}.get(shape, [("accept",)])
    s = aio.Session(kind, connect_plan=plan, client_kwargs={"dump_to_file": "/dev/full"} if shape == "dump_device_full" else None)
    s.status_mode = mode
    s.close_returned = None
    s.outstanding = False
    s.post_errors = []

    async def main(s):
        loop = s.loop
        c = s.make_client()
        if shape == "in_callback":
            s.receive_behaviour = lambda i: 1.5
        if shape == "in_nested_callback":
            s.receive_behaviour = lambda i: "nested"
        conn = None
        if shape != "never_connected":
            conn = asyncio.ensure_future(c.connect())
        if shape in ("connected_idle", "mid_packet", "in_callback", "in_nested_callback", "during_send", "after_fault", "reset_and_send", "busy_backoff", "write_fault", "busy_closed_send", "dump_device_full"):
            while not s.gw.links:
                await asyncio.sleep(0.01)
            await conn                      # connect() has returned: status callback done, receive loop started
            await asyncio.sleep(0.05)
        link = s.gw.link
        if shape == "mid_packet":
            link.feed(valid_packet(kind)[:6])
        elif shape in ("in_callback", "in_nested_callback"):
            link.feed(valid_packet(kind) + valid_packet(kind, sid=2))
        elif shape == "during_send" and kind != "actisense":
            s.gw.write_actions[s.gw.total_writes + 1] = ("pause", 25)
            asyncio.ensure_future(c.send(iso_request()))
        elif shape == "after_fault":
            link.eof()
        elif shape == "dump_device_full":
            # the dump file sits on a full device: the buffered JSON lines cannot be written when the file is flushed / closed
            link.feed(valid_packet(kind) + valid_packet(kind, sid=2))
            await asyncio.sleep(0.05)
        elif shape == "busy_closed_send":
            # an EByte gateway that is out of connections says so and hangs up; the client sits out its 30 s pause (its reader is not
            # reading) while the application sends: only the write side notices that the link is gone, and reconnects
            if kind == "ebyte":
                link.feed(b"Sorry,Limited")
                await asyncio.sleep(0.05)
                link.reset()
                await asyncio.sleep(0.05)
            asyncio.ensure_future(c.send(iso_request())) if kind != "actisense" else None
        elif shape == "write_fault" and kind != "actisense":
            # a fault only the write side notices: send() starts the reconnection while the reader still waits on the old link
            s.gw.write_actions[s.gw.total_writes + 1] = ("fail",)
            asyncio.ensure_future(c.send(iso_request()))
        elif shape == "busy_backoff":
            # the gateway is out of connections: EByte gateways answer with this banner (other clients see 13 bytes of noise)
            link.feed(b"Sorry,Limited")
        elif shape == "reset_and_send":
            # the read side and a concurrent send both notice the loss: DISCONNECTED must still be notified once
            s.gw.plan[:] = [("refuse",)] * 3 + [("accept",)]
            link.reset()
            if kind != "actisense":
                asyncio.ensure_future(c.send(iso_request()))
                await asyncio.sleep(0)
                asyncio.ensure_future(c.send(iso_request()))
        S0 = loop.steps
        closed = asyncio.Event()

        second = {}

        def inject_during():
            what = during[0]
            if what == "close2":
                # another owner of the client (a shutdown handler, an `async with` exit) calls close() as well, while the first call
                # is still running
                async def again():
                    await c.close()
                    second["returned"] = loop.time()
                    second["returned_step"] = loop.steps
                    s.links_open_at_return = [l.index for l in s.gw.links if not (l.closed_by_client or l.lost_called)]
                    for l in s.gw.links:
                        if not (l.closed_by_client or l.lost_called or l.dead):
                            l.feed(valid_packet(kind, sid=66))       # the gateway goes on sending
                second["task"] = asyncio.ensure_future(again())
                return
            l = s.gw.link
            if l is None:
                return
            if what == "data":
                l.feed(valid_packet(kind, sid=55))
            elif what == "sorry":
                l.feed(b"Sorry,Limited")
            elif what == "eof":
                l.eof()
            elif what == "reset":
                l.reset()

        async def do_close():
            s.close_entered_step = loop.steps
            s.close_entered_time = loop.time()
            s.outstanding = outstanding_now()
            if during is not None and during[0] != "timer":
                # something happens on the link while close() is still running (e.g. while it awaits a slow status callback)
                s.at_step(loop.steps + during[1], inject_during)
            try:
                await c.close()
            except OSError as e:
                s.close_error = e          # (an I/O error of the dump file may surface from close(); what close() promises must hold anyway)
            s.close_returned = loop.time()
            s.close_returned_step = loop.steps
            if not hasattr(s, "links_open_at_return"):
                s.links_open_at_return = [l.index for l in s.gw.links if not (l.closed_by_client or l.lost_called)]
            if second.get("task") is not None:
                await second["task"]
                # whichever call returns first has promised everything close() promises
                if second["returned"] < s.close_returned:
                    s.close_returned, s.close_returned_step = second["returned"], second["returned_step"]
            closed.set()

        def outstanding_now():
            names = {aio._task_name(t).split(".")[-1] for t in asyncio.all_tasks(loop) if not t.done()}
            return bool(names & {"connect", "send"}) or (shape in ("in_callback", "in_nested_callback") and len(s.received) > 0) or shape in ("mid_packet",)

        started = []

        def start():
            if not started:
                started.append(1)
                asyncio.ensure_future(do_close())
        if during is not None and during[0] == "timer":
            # close() is called 0.1 virtual s before the during[1]-th pending timer of the loop expires (status callback: 0.3 s when slow)
            await asyncio.sleep(0.2)
            whens = sorted({h.when() for h in loop._scheduled if not h.cancelled() and h.when() > loop.time() + 0.11})
            s.timer_target = whens[during[1]] if during[1] < len(whens) else None
            if s.timer_target is not None:
                await asyncio.sleep(s.timer_target - 0.1 - loop.time())
        else:
            s.at_step(S0 + k, start)
            await asyncio.sleep(12.0)
        start()
        await closed.wait()
        # ---- post-close stimuli ----
        s.gw.plan[:] = [("accept",)]
        for p in post:
            try:
                if p == "connect":
                    await asyncio.wait_for(c.connect(), 30)
                elif p == "send" and kind != "actisense":
                    await asyncio.wait_for(c.send(iso_request()), 30)
                elif p == "data":
                    for l in s.gw.links:
                        l.feed(valid_packet(kind, sid=77))
                elif p == "eof":
                    for l in s.gw.links:
                        l.eof()
            except Exception as e:
                s.post_errors.append(f"{p}: {type(e).__name__}: {e}")
            await asyncio.sleep(0.5)
        await asyncio.sleep(60.0)
        s.final_state = c.state.name
        s.client_tasks_left = sorted({aio._task_name(t).split(".")[-1] for t in asyncio.all_tasks(loop) if not t.done()} & set(CLIENT_TASKS))

    outcome = s.run(main, max_steps=200_000)
    return outcome, s


def evaluate(kind, shape, k, mode, outcome, s, during=None):
    case = {"client": kind, "shape": shape, "k": k, "mode": mode, "during": list(during) if during else None}
    tag = f"C14|{kind}|{shape}"
    if outcome != "ok":
        return [(f"{tag}|{outcome}", f"session ended with {outcome}: {s.errors[:1]}", case)]
    out = []
    if s.state_after_close:
        step, st_ = s.state_after_close[0]
        out.append((f"{tag}|left-closed|{st_}", f"close() entered at step {s.close_entered_step}, state is {st_} at step {step} ({len(s.state_after_close)} steps not CLOSED)", case))
    late = [st for st in s.gw.attempt_steps if st > s.close_entered_step]
    if late:
        out.append((f"{tag}|attempt-after-close", f"{len(late)} connection attempt(s) initiated after close() was entered (steps {late[:4]}, close at {s.close_entered_step})", case))
    if s.close_returned is not None:
        lr = [t for t, _ in s.received if t > s.close_returned + 1e-9]
        if lr:
            out.append((f"{tag}|callback-after-close", f"{len(lr)} receive callback(s) after close() returned", case))
        # a callback that was running when close() was called has been cancelled and has ENDED by the time close() returns (callbacks of
        # the harness need loop iterations, but no time, to wind up after a cancellation)
        running = [(st_, i) for _, st_, i in s.callback_exits if st_ > s.close_returned_step]
        if running:
            out.append((f"{tag}|callback-running-after-close", f"receive callback number {running[0][1]} was still running when close() returned (close() returned at loop "
                        f"step {s.close_returned_step}, the callback ended at step {running[0][0]})", case))
    if getattr(s, "links_open_at_return", None):
        out.append((f"{tag}|link-open-when-close-returned", f"links {s.links_open_at_return} were still open when a close() call returned", case))
    open_links = [l.index for l in s.gw.links if not (l.closed_by_client or l.lost_called)]   # shut by the client or already lost (reset)
    if open_links:
        out.append((f"{tag}|link-left-open", f"links {open_links} of {len(s.gw.links)} were never closed by the client", case))
    if s.client_tasks_left:
        out.append((f"{tag}|task-left|{'+'.join(s.client_tasks_left)}", f"client tasks still pending after 60 virtual s: {s.client_tasks_left}", case))
    if s.final_state != "CLOSED":
        out.append((f"{tag}|final-state|{s.final_state}", f"final state {s.final_state}", case))
    tr = [x for _, x in s.status_trace]
    for a, b in zip(tr, tr[1:]):
        if a == b:
            out.append((f"{tag}|status-repeated|{a}", f"status callback invoked twice in a row with {a}: {tr}", case))
            break
    polled = [x for _, _, x in s.states]
    if polled and polled[0] == "DISCONNECTED":
        polled = polled[1:]          # the initial state is not a change
    it = iter(tr)
    if mode == "none":
        pass          # no callback registered: nothing to compare the polled states with
    elif not all(any(p == t for t in it) for p in polled):
        out.append((f"{tag}|status-missed", f"polled state sequence {polled} is not a subsequence of the status trace {tr}", case))
    if tr and tr[-1] != s.final_state:
        out.append((f"{tag}|status-last", f"last status notification {tr[-1]} != final state {s.final_state}", case))
    if s.task_errors:
        out.append((f"{tag}|unhandled-task-error", f"unhandled exception in a task: {s.task_errors[:2]}", case))
    return out


def fingerprint(s):
    return ([round(a - s.t0, 6) for a in s.gw.attempts], [l.bytes_written().hex() for l in s.gw.links], len(s.received),
            [x for _, _, x in s.states], [l.closed_by_client for l in s.gw.links])


def check(ctx, kind, shape, k, mode, during=None):
    outcome, s = run_case(kind, shape, k, mode, during=during)
    res = evaluate(kind, shape, k, mode, outcome, s, during)
    if mode == "raise" and outcome == "ok":
        o2, s2 = run_case(kind, shape, k, "plain", during=during)
        if o2 == "ok" and fingerprint(s) != fingerprint(s2):
            res.append((f"C14|{kind}|{shape}|raising-callback-visible", f"run with a raising status callback differs from the plain run: {fingerprint(s)} vs {fingerprint(s2)}",
                        {"client": kind, "shape": shape, "k": k, "mode": mode, "during": list(during) if during else None}))
    return res, s


def _enumerate(ctx: Ctx, item):
    kind, shape, ks, modes = item
    for k in ks:
        for mode in modes:
            ctx.count()
            res, s = check(ctx, kind, shape, k, mode)
            if getattr(s, "outstanding", False):
                ctx.nontrivial_extra += 1
                ctx.klass("close_with_outstanding_work")
            for b, w, c in res:
                ctx.report(b, w, c)
            if k == ks[0] and mode == modes[0]:
                ctx.sample({"client": kind, "shape": shape, "k": k, "mode": mode, "status": [x for _, x in s.status_trace],
                            "attempts": len(s.gw.attempts), "loop_steps": s.loop.steps})
    ctx.klass(f"shape:{shape}", len(ks) * len(modes))


def _during(ctx: Ctx, item):
    """Link events while close() is running (enumerated: event kind x delay in loop steps x callback mode x shape)."""
    kind, = item
    events = ["data", "eof", "reset", "close2"] + (["sorry"] if kind == "ebyte" else [])
    for shape in ("connected_idle", "mid_packet", "in_callback"):
        for ev in events:
            for j in (0, 1, 2, 4):
                for mode in ("slow", "plain"):
                    ctx.count()
                    ctx.nontrivial_extra += 1
                    res, s = check(ctx, kind, shape, 3, mode, during=(ev, j))
                    for b, w, c in res:
                        ctx.report(b + "|during-close", w, c)
    ctx.klass("events_during_close")


def _timers(ctx: Ctx, item):
    """close() called just before a pending client timer expires (reconnect back-off, busy-gateway pause, connect retry), so that the
    timer fires while close() is still notifying; enumerated: shape x timer index x callback mode."""
    kind, = item
    n = 0
    for shape in TIMER_SHAPES:
        for j in range(4):
            for mode in ("slow", "plain", "raise"):
                res, s = check(ctx, kind, shape, 0, mode, during=("timer", j))
                if getattr(s, "timer_target", None) is None:
                    continue
                ctx.count()
                ctx.nontrivial_extra += 1
                n += 1
                for b, w, c in res:
                    ctx.report(b + "|before-timer", w, c)
    ctx.klass("close_just_before_a_timer", n)


def run_from_callback(kind, who, fault, n_after):
    """close() called BY one of the application's callbacks (the usual "shut down when the link drops" / "stop after this message"
    handler): it is a close() like any other - it returns, the state is CLOSED, the link is shut, nothing is delivered afterwards, no new
    connection is opened and the client's background tasks finish."""
    s = aio.Session(kind, connect_plan=[("accept",)])
    s.status_mode = "plain"
    res = {}

    async def main(s):
        loop = s.loop
        c = s.make_client()
        plain_status, plain_receive = c.status_callback, c.receive_callback

        async def closing(tag):
            res["called"] = loop.time()
            res["from"] = tag
            try:
                await c.close()
                res["returned"] = loop.time()
            except BaseException as e:          # noqa: BLE001 - recorded and passed on
                res["interrupted"] = type(e).__name__
                raise
            res["received_at_return"] = len(s.received)
            res["attempts_at_return"] = len(s.gw.attempts)

        async def on_status(state):
            await plain_status(state)
            if "called" not in res and ((who == "status-disconnected" and state.name == "DISCONNECTED") or (who == "status-connected" and state.name == "CONNECTED")):
                await closing(who)

        async def on_receive(msg):
            await plain_receive(msg)
            if "called" not in res and who == "receive":
                await closing(who)
        c.set_status_callback(on_status)
        c.set_receive_callback(on_receive)
        await c.connect()
        await asyncio.sleep(0.1)
        link = s.gw.link
        if who == "receive" and link is not None:
            link.feed(b"".join(valid_packet(kind, sid=i + 1) for i in range(1 + n_after)))
        elif who == "status-disconnected" and link is not None:
            if n_after:
                link.feed(b"".join(valid_packet(kind, sid=i + 1) for i in range(n_after)))
                await asyncio.sleep(0.05)
            (link.eof if fault == "eof" else link.reset)()
        await asyncio.sleep(15.0)
        for l in s.gw.links:
            if not (l.closed_by_client or l.lost_called or l.dead):
                l.feed(valid_packet(kind, sid=99))
        await asyncio.sleep(5.0)
        res["state"] = c.state.name
        res["tasks_left"] = sorted({aio._task_name(t).split(".")[-1] for t in asyncio.all_tasks(loop) if not t.done()} & set(CLIENT_TASKS))
        res["links_open"] = [l.index for l in s.gw.links if not (l.closed_by_client or l.lost_called)]
        res["received"] = len(s.received)
        res["attempts"] = len(s.gw.attempts)
        res["status"] = [x for _, x in s.status_trace]
    outcome = s.run(main, max_steps=100_000)
    return outcome, s, res


def check_from_callback(kind, who, fault, n_after):
    outcome, s, r = run_from_callback(kind, who, fault, n_after)
    case = {"from_callback": True, "client": kind, "who": who, "fault": fault, "n_after": n_after}
    tag = f"C14|{kind}|close-from-{who}-callback"
    out = []
    if outcome != "ok":
        return [(f"{tag}|{outcome}", f"session ended with {outcome}: {s.errors[:1]}", case)], r
    if "called" not in r:
        return out, r
    if "returned" not in r:
        out.append((f"{tag}|close-did-not-return", f"close() called by the {who} callback "
                    + (f"was interrupted by {r['interrupted']}" if "interrupted" in r else "never returned") + f" (state {r['state']}, tasks left {r['tasks_left']})", case))
    if r["state"] != "CLOSED":
        out.append((f"{tag}|not-closed", f"20 s after close() was called by the {who} callback the state is {r['state']}", case))
    if r["tasks_left"]:
        out.append((f"{tag}|tasks-left", f"20 s after close() was called by the {who} callback these client tasks are still pending: {r['tasks_left']}", case))
    if r["links_open"]:
        out.append((f"{tag}|link-open", f"links {r['links_open']} were never shut", case))
    if "returned" in r and (r["received"] > r["received_at_return"] or r["attempts"] > r["attempts_at_return"]):
        out.append((f"{tag}|activity-after-close", f"after close() returned: {r['received'] - r['received_at_return']} message(s) delivered, "
                    f"{r['attempts'] - r['attempts_at_return']} connection attempt(s)", case))
    st_ = r["status"]
    if any(a == b for a, b in zip(st_, st_[1:])) or (st_ and st_[-1] != "CLOSED") or st_.count("CLOSED") != 1:
        out.append((f"{tag}|status-trace", f"status callback trace {st_}", case))
    return out, r


def _from_callback(ctx: Ctx, item):
    kind, = item
    for who, fault, n_after in (("status-disconnected", "eof", 0), ("status-disconnected", "reset", 0), ("status-disconnected", "eof", 3), ("status-connected", None, 0),
                                ("receive", None, 0), ("receive", None, 1), ("receive", None, 5)):
        ctx.count()
        res, r = check_from_callback(kind, who, fault, n_after)
        if "called" in r:
            ctx.nontrivial_extra += 1
            ctx.klass("close_called_by_callback:" + who)
        for b, w, c in res:
            ctx.report(b, w, c)


def _work(ctx: Ctx, item):
    kind, n = item

    def one(shape, k, mode):
        ctx.count()
        res, s = check(ctx, kind, shape, k, mode)
        if getattr(s, "outstanding", False):
            ctx.nt((kind, shape, k, mode))
        ctx.klass("hyp:" + shape)
        return res
    ctx.hyp(one, st.sampled_from(SHAPES), st.integers(0, 150), st.sampled_from(["plain", "raise", "slow"]), max_examples=n, name="close-" + kind)


def run(ctx: Ctx):
    if ctx.quick:
        ks = list(range(0, 8)) + [10, 14, 20, 30, 45, 70]
        modes_for = lambda i: [["plain", "raise", "slow", "none"][i % 4]]
    else:
        ks = list(range(0, 130))
        modes_for = lambda i: ["plain", "raise", "slow", "none"]
    jobs = []
    for kind in aio.CLIENT_KINDS:
        for i, shape in enumerate(SHAPES):
            if ctx.quick:
                jobs.append((kind, shape, ks, modes_for(i + aio.CLIENT_KINDS.index(kind))))
            else:
                for part in (ks[0::2], ks[1::2]):
                    jobs.append((kind, shape, part, modes_for(i)))
    pmap(ctx, _enumerate, jobs)
    pmap(ctx, _during, [(k,) for k in aio.CLIENT_KINDS])
    pmap(ctx, _from_callback, [(k,) for k in aio.CLIENT_KINDS])
    pmap(ctx, _timers, [(k,) for k in aio.CLIENT_KINDS])
    pmap(ctx, _work, [(k, 10 if ctx.quick else 800) for k in aio.CLIENT_KINDS for _ in range(4)])
    ctx.notes["close_steps_enumerated"] = f"{len(ks)} step offsets x {len(SHAPES)} shapes x 4 clients" + ("" if ctx.quick else " x 3 callback modes (every step 0..129)")


def replay(ctx: Ctx, case):
    if case.get("from_callback"):
        return check_from_callback(case["client"], case["who"], case["fault"], case["n_after"])[0]
    during = tuple(case["during"]) if case.get("during") else None
    res, _ = check(ctx, case["client"], case["shape"], case["k"], case["mode"], during)
    if during and during[0] == "timer":
        return [(b + "|before-timer", w, c) for b, w, c in res]
    return [(b + "|during-close", w, c) for b, w, c in res] if during else res
