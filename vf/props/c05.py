"""C05 - CAN identifier packing and parsing are mutually inverse (PDU1/PDU2 aware)."""
from __future__ import annotations

from .. import common
from ..common import Ctx, pmap

LEVEL = "exploration"
LEVEL_TEXT = ("Thorough tier enumerates all 2^29 identifiers through parse and rebuild (exhaustive for the two pure functions); quick "
              "tier enumerates the complete 21-bit (priority,DP,PF,PS) space for 3 sources plus all sources for sampled upper parts. The "
              "public encode/decode path is sampled with Hypothesis over every encodable definition.")
TECHNIQUE = "exhaustive enumeration of the identifier space + property-based round trip through the public encoders/decoders"
RULE = ("identifiers enumerated (thorough: all 2^29; quick: all 2^21 (priority,DP,PF,PS) x 3 sources + all 256 sources "
        "for sampled upper parts) through _extract_header/_build_header, plus every database PGN x Hypothesis "
        "(source,destination,priority) through encode_ebyte/usb/yacht_devices/actisense -> decode_*, incl. one decoder used through two entry points with byte-swapped identifier twins; non-trivial = "
        "PF in {0xEE,0xEF,0xF0,0xF1} or DP != 0 or destination not in {0,255} or priority not in {2,3,6}; distinct = identifier / tuple")
ASSUMPTIONS = [
    "identifier layout per ISO 11783 / canboat: source bits 0-7, PS 8-15, PF 16-23, DP 24-25, priority 26-28; PDU1 iff PF < 240",
    "public-path part stubs nothing: it uses encodable database PGNs with field values obtained from decoding an all-zero payload",
]


def _nontrivial(prio, dp, pf, ps_or_dest, pdu1):
    return pf in (0xEE, 0xEF, 0xF0, 0xF1) or dp != 0 or (pdu1 and ps_or_dest not in (0, 255)) or prio not in (2, 3, 6)


def ref_parse(ident):
    src = ident & 0xFF
    ps = (ident >> 8) & 0xFF
    pf = (ident >> 16) & 0xFF
    dp = (ident >> 24) & 0x3
    prio = (ident >> 26) & 0x7
    if pf < 240:
        return (dp << 16) | (pf << 8), src, ps, prio
    return (dp << 16) | (pf << 8) | ps, src, 255, prio


def check_ident(ident, extract, build):
    """All discrepancies for one identifier."""
    out = []
    got = extract(ident)
    exp = ref_parse(ident)
    if tuple(got) != exp:
        field = ["pgn", "source", "destination", "priority"][[i for i in range(4) if got[i] != exp[i]][0]]
        out.append((f"C05|parse|{field}", f"id {ident:#010x} parsed to {tuple(got)} expected {exp}", {"ident": ident}))
    pgn, src, dest, prio = got
    back = build(pgn, src, dest, prio)
    if back != ident:
        diff = back ^ ident
        part = "source" if diff & 0xFF else "ps" if diff & 0xFF00 else "pf" if diff & 0xFF0000 else "dp" if diff & 0x3000000 else "priority" if diff & 0x1C000000 else "high"
        out.append((f"C05|rebuild|{part}", f"id {ident:#010x} -> {tuple(got)} -> {back:#010x}", {"ident": ident}))
    return out


def _sweep(ctx: Ctx, item):
    from nmea2000.decoder import NMEA2000Decoder
    from nmea2000.encoder import NMEA2000Encoder
    extract = NMEA2000Decoder._extract_header
    build = NMEA2000Encoder._build_header
    kind, lo, hi, srcs = item
    n = 0
    nt = 0
    for upper in range(lo, hi):          # upper = ident >> 8  (21 bits: prio|dp|pf|ps)
        ps = upper & 0xFF
        pf = (upper >> 8) & 0xFF
        dp = (upper >> 16) & 3
        prio = upper >> 18
        pdu1 = pf < 240
        is_nt = _nontrivial(prio, dp, pf, ps, pdu1)
        e_pgn = (dp << 16) | (pf << 8) | (0 if pdu1 else ps)
        e_dest = ps if pdu1 else 255
        base = upper << 8
        for src in srcs:
            ident = base | src
            got = extract(ident)
            if got[0] != e_pgn or got[1] != src or got[2] != e_dest or got[3] != prio or build(got[0], got[1], got[2], got[3]) != ident:
                for b, w, c in check_ident(ident, extract, build):
                    ctx.report(b, w, c)
        n += len(srcs)
        if is_nt:
            nt += len(srcs)
    ctx.count(n)
    ctx.nontrivial_extra += nt
    ctx.klass("ident_" + kind, n)
    if lo == 0:
        ctx.sample({"ident": hex(((hi - 1) << 8) | srcs[-1]), "parsed": list(extract(((hi - 1) << 8) | srcs[-1]))})


def _fresh_ok(second):
    """Does a fresh decoder return a message for this packet?"""
    from nmea2000.decoder import NMEA2000Decoder
    try:
        return second(NMEA2000Decoder()) is not None
    except Exception:
        return False


def _public(ctx: Ctx, item):
    """Database PGNs through the four encoders and matching decoders."""
    from hypothesis import strategies as st
    from .. import canboat, gen
    from nmea2000.decoder import NMEA2000Decoder
    from nmea2000.encoder import NMEA2000Encoder
    from nmea2000.message import NMEA2000Message
    defs, n_examples = item
    db = canboat.db()
    for did in defs:
        d = db.by_key[did]
        msg0 = gen.benign_message(d)
        if msg0 is None:
            continue
        pdu1 = ((d.pgn >> 8) & 0xFF) < 240

        def check(src, dest, prio, did=did, d=d, msg0=msg0, pdu1=pdu1):
            out = []
            ctx.count()
            if _nontrivial(prio, d.pgn >> 16, (d.pgn >> 8) & 0xFF, dest, pdu1) or (not pdu1 and dest != 255):
                ctx.nt((did, src, dest, prio))
            ctx.klass("public_pdu1" if pdu1 else ("public_pdu2_noncanonical" if dest != 255 else "public_pdu2"))
            if msg0.PGN != d.pgn:
                return [("C05|decoded-pgn", f"{did}: the message decoded from a payload of PGN {d.pgn} says PGN {msg0.PGN}", {"definition": did, "source": src, "destination": dest, "priority": prio})]
            m = NMEA2000Message(PGN=d.pgn, id=d.id, fields=msg0.fields, source=src, destination=dest, priority=prio)
            e_dest = dest if pdu1 else 255
            exp = (d.pgn, src, e_dest, prio)
            enc = NMEA2000Encoder()
            case = {"definition": did, "source": src, "destination": dest, "priority": prio}
            # identifier bytes in the three frame formats
            idents = {}
            try:
                pk = enc.encode_ebyte(m)[0]
                idents["ebyte"] = int.from_bytes(pk[1:5], "big")
                pk = enc.encode_usb(m)[0]
                idents["usb"] = int.from_bytes(pk[5:9], "little")
                pk = enc.encode_yacht_devices(m)[0]
                idents["yd"] = int(pk[:8].decode(), 16)
            except Exception as e:
                return [(f"C05|public-build|encode-error|{type(e).__name__}", f"{case}: the encoder refuses a benign message of an encodable definition: {e}", case)]
            for fmt, ident in idents.items():
                if ref_parse(ident) != exp or ident >> 29:
                    out.append((f"C05|public-build|{fmt}", f"{case} wrote identifier {ident:#x} which reads as {ref_parse(ident)}", case))
            # decode path: single-frame only yields a message per frame; for fast PGNs feed all frames
            for fmt in ("ebyte", "usb", "yd", "actisense"):
                dec = NMEA2000Decoder()
                res = None
                try:
                    if fmt == "ebyte":
                        for p in NMEA2000Encoder().encode_ebyte(m):
                            p = p + bytes(13 - len(p))
                            res = dec.decode_tcp(p)
                    elif fmt == "usb":
                        for p in NMEA2000Encoder().encode_usb(m):
                            res = dec.decode_usb(p)
                    elif fmt == "yd":
                        for p in NMEA2000Encoder().encode_yacht_devices(m):
                            res = dec.decode_yacht_devices_string("00:00:00.000 R " + p.decode().strip())
                    else:
                        res = dec.decode_actisense_string("A000001.000 " + NMEA2000Encoder().encode_actisense(m))
                except Exception as e:  # the decode of the benign payload itself is C01/C06 business
                    ctx.klass("public_decode_error:" + fmt + ":" + type(e).__name__ + ":" + str(e)[:40])
                    continue
                if res is None:
                    ctx.klass("public_decode_none")
                    continue
                got = (res.PGN, res.source, res.destination, res.priority)
                e = exp if fmt != "actisense" else (d.pgn, src, dest, prio)  # the text header carries dest verbatim
                if got != e:
                    out.append((f"C05|public-roundtrip|{fmt}", f"{case} came back as {got}, expected {e}", case))
            # one decoder used through several entry points: a packet of another format that carries the SAME four identifier
            # bytes on the wire (the byte-swapped identifier) must not influence how this identifier is parsed afterwards
            if not d.fast:
                from .. import wire
                pk_e = NMEA2000Encoder().encode_ebyte(m)[0]
                pk_u = NMEA2000Encoder().encode_usb(m)[0]
                data = pk_e[5:5 + (pk_e[0] & 0x0F)]
                a = int.from_bytes(pk_e[1:5], "big")
                twin = int.from_bytes(a.to_bytes(4, "big"), "little")
                for first, second, name in ((lambda dd: dd.decode_usb(wire.usb(twin, data)), lambda dd: dd.decode_tcp(pk_e), "usb-then-ebyte"),
                                            (lambda dd: dd.decode_tcp(wire.ebyte(twin, data)), lambda dd: dd.decode_usb(pk_u), "ebyte-then-usb")):
                    dd = NMEA2000Decoder()
                    try:
                        first(dd)
                    except Exception:
                        pass
                    try:
                        r = second(dd)
                    except Exception:
                        r = None
                    ctx.klass("cross_entry_point")
                    got = (r.PGN, r.source, r.destination, r.priority) if r is not None else None
                    if got != exp and (got is not None or _fresh_ok(second)):
                        out.append((f"C05|cross-entry-point|{name}", f"{case}: after a {name.split('-')[0]} packet with the same identifier bytes the message came back as {got}, expected {exp}", case))
            # (a) a message handed out earlier keeps its header when the same data arrives again under another identifier;
            # (b) a received message whose addressing the application changes (a bridge re-targets it) is sent with the new identifier
            if not d.fast:
                from .. import wire
                pk1 = NMEA2000Encoder().encode_ebyte(m)[0]
                data1 = pk1[5:5 + (pk1[0] & 0x0F)]
                prio2, dest2 = (prio + 3) % 8, (dest ^ 0x2D) & 0xFF if pdu1 else dest
                dd = NMEA2000Decoder()
                try:
                    r1 = dd.decode_tcp(pk1)
                    snap = (r1.PGN, r1.source, r1.destination, r1.priority) if r1 is not None else None
                    r2 = dd.decode_tcp(wire.ebyte(wire.ident(d.pgn, src, dest2 if pdu1 else 255, prio2), data1))
                except Exception:
                    r1 = r2 = None
                if r1 is not None and r2 is not None:
                    ctx.klass("same_data_other_identifier")
                    if (r1.PGN, r1.source, r1.destination, r1.priority) != snap:
                        out.append(("C05|earlier-result-rewritten", f"{case}: the message returned first reported {snap}; after the same data arrived with priority {prio2} / destination "
                                    f"{dest2 if pdu1 else 255} it reports {(r1.PGN, r1.source, r1.destination, r1.priority)}", case))
                    exp2 = (d.pgn, src, dest2 if pdu1 else 255, prio2)
                    if (r2.PGN, r2.source, r2.destination, r2.priority) != exp2:
                        out.append(("C05|repeat-other-identifier", f"{case}: same data under another identifier came back as {(r2.PGN, r2.source, r2.destination, r2.priority)}, expected {exp2}", case))
                    # (b) re-target the received message and send it
                    r2.priority, r2.destination = prio, dest
                    try:
                        ident_b = int.from_bytes(NMEA2000Encoder().encode_ebyte(r2)[0][1:5], "big")
                        ident_u = int.from_bytes(NMEA2000Encoder().encode_usb(r2)[0][5:9], "little")
                        ident_y = int(NMEA2000Encoder().encode_yacht_devices(r2)[0][:8].decode(), 16)
                    except Exception:
                        ident_b = ident_u = ident_y = None
                    for fmt, ident in (("ebyte", ident_b), ("usb", ident_u), ("yd", ident_y)):
                        if ident is not None and ref_parse(ident) != exp:
                            out.append((f"C05|retargeted-message|{fmt}", f"{case}: a received message re-targeted to priority {prio} / destination {dest} was sent with identifier "
                                        f"{ident:#x} which reads as {ref_parse(ident)}", case))
            # fast-packet PGNs: the stream's previous message was sent with another priority and never completed (its tail was lost);
            # the next complete message comes back with the priority its own frames carry
            if d.fast:
                other = NMEA2000Message(PGN=msg0.PGN, id=msg0.id, fields=msg0.fields, source=src, destination=dest, priority=(prio + 3) % 8)
                for fmt in ("ebyte", "yd"):
                    dd = NMEA2000Decoder()
                    e1, e2 = NMEA2000Encoder(), NMEA2000Encoder()
                    e2.sequence_counter = 1 if hasattr(e2, "sequence_counter") else 0
                    r = None
                    try:
                        if fmt == "ebyte":
                            for p in e1.encode_ebyte(other)[:-1]:
                                dd.decode_tcp(p)
                            for p in e2.encode_ebyte(m):
                                r = dd.decode_tcp(p)
                        else:
                            for p in e1.encode_yacht_devices(other)[:-1]:
                                dd.decode_yacht_devices_string("00:00:00.000 R " + p.decode().strip())
                            for p in e2.encode_yacht_devices(m):
                                r = dd.decode_yacht_devices_string("00:00:00.000 R " + p.decode().strip())
                    except Exception:
                        continue
                    ctx.klass("fast_after_unfinished_other_priority")
                    if r is not None and (r.PGN, r.source, r.destination, r.priority) != exp:
                        out.append((f"C05|after-unfinished-message|{fmt}", f"{case}: after an unfinished message of priority {(prio + 3) % 8} on the stream the complete "
                                    f"message came back as {(r.PGN, r.source, r.destination, r.priority)}, expected {exp}", case))
            return out

        ctx.hyp(check, st.integers(0, 255), st.one_of(st.sampled_from([0, 255, 1, 254]), st.integers(0, 255)),
                st.integers(0, 7), max_examples=n_examples, name="public")
        m = NMEA2000Message(PGN=d.pgn, id=d.id, fields=msg0.fields, source=7, destination=42, priority=5)
        try:
            ctx.sample({"definition": did, "source": 7, "destination": 42, "priority": 5,
                        "ebyte_identifier": NMEA2000Encoder().encode_ebyte(m)[0][1:5].hex(), "examples_drawn": n_examples})
        except Exception:
            pass


def _repeat(ctx: Ctx, keys):
    """Every single-frame definition the decoder supports (also the ones that cannot be encoded, e.g. the ISO address claim): the same
    data under two identifiers on one decoder - both messages report their own identifier, the first one also afterwards."""
    from .. import canboat, gen, wire
    from nmea2000.decoder import NMEA2000Decoder
    db = canboat.db()
    for key in keys:
        d = db.by_key[key]
        bp, bn, _ = gen.benign_payload(d)
        if bn > 8:
            continue
        data = bp.to_bytes(bn, "little")
        pdu1 = ((d.pgn >> 8) & 0xFF) < 240
        for src, (p1, d1), (p2, d2) in ((5, (6, 255), (3, 40)), (0, (0, 0), (7, 255)), (253, (2, 17), (2, 18)), (17, (7, 254), (0, 254))):
            dec = NMEA2000Decoder()
            e1 = (d.pgn, src, d1 if pdu1 else 255, p1)
            e2 = (d.pgn, src, d2 if pdu1 else 255, p2)
            try:
                r1 = dec.decode_tcp(wire.ebyte(wire.ident(d.pgn, src, e1[2], p1), data))
                r2 = dec.decode_tcp(wire.ebyte(wire.ident(d.pgn, src, e2[2], p2), data))
            except Exception:
                continue
            if r1 is None or r2 is None:
                continue
            ctx.count()
            ctx.nt((key, src, p1, d1, p2, d2))
            case = {"repeat": key, "source": src, "first": [p1, d1], "second": [p2, d2]}
            g1, g2 = (r1.PGN, r1.source, r1.destination, r1.priority), (r2.PGN, r2.source, r2.destination, r2.priority)
            if g1 != e1:
                ctx.report("C05|earlier-result-rewritten", f"{key}: the message decoded from identifier {e1} reports {g1} after the same data arrived under {e2}", case)
            if g2 != e2:
                ctx.report("C05|repeat-other-identifier", f"{key}: the same data under identifier {e2} came back as {g2}", case)
    ctx.klass("same_data_two_identifiers_definitions", len(keys))


def run(ctx: Ctx):
    from .. import canboat as _cb
    single = [d.key for d in _cb.db().defs if d.supported and not d.fast and d.ptype == "Single"]
    pmap(ctx, _repeat, common.chunks(single, 16))
    from .. import canboat
    # 1. identifier space
    U = 1 << 21
    if ctx.quick:
        srcs = [0, 255, (ctx.seed * 37 + 11) % 256]
        pmap(ctx, _sweep, [("full21x3src", lo, min(lo + U // 32, U), srcs) for lo in range(0, U, U // 32)])
        import random
        rnd = random.Random(ctx.seed)  # enumeration plan only; every value still derives from VERIF_SEED
        uppers = sorted(rnd.sample(range(U), 4096))
        pmap(ctx, _sweep_list, common.chunks(uppers, 16))
        ctx.exhaustive = False
    else:
        pmap(ctx, _sweep, [("all29", lo, min(lo + U // 64, U), list(range(256))) for lo in range(0, U, U // 64)])
        ctx.exhaustive = True
        ctx.notes["exhaustive_space"] = "all 2^29 identifiers"
    # 2. public path
    db = canboat.db()
    enc = [d.key for d in db.defs if d.encodable]
    n = 6 if ctx.quick else 60
    pmap(ctx, _public, [(c, n) for c in common.chunks(enc, 16)])
    ctx.notes["public_definitions"] = len(enc)


def _sweep_list(ctx: Ctx, uppers):
    for u in uppers:
        _sweep(ctx, ("sampled_upper_all_sources", u, u + 1, list(range(256))))


def replay(ctx: Ctx, case):
    if "repeat" in case:
        sub = Ctx(ctx.pid)
        sub.known_open = {}
        _repeat(sub, [case["repeat"]])
        return [(b, v["what"], v["case"]) for b, v in sub.found.items()]
    from nmea2000.decoder import NMEA2000Decoder
    from nmea2000.encoder import NMEA2000Encoder
    if "ident" in case:
        return check_ident(case["ident"], NMEA2000Decoder._extract_header, NMEA2000Encoder._build_header)
    res = []
    sub = Ctx(ctx.pid)
    sub.known_open = {}

    def grab(c, item):
        pass
    # public-path case: re-run the single tuple
    from .. import canboat, gen
    from hypothesis import strategies as st
    d = canboat.db().by_key[case["definition"]]
    holder = {}
    _public_single(sub, d, case["source"], case["destination"], case["priority"], holder)
    return holder.get("out", [])


def _public_single(ctx, d, src, dest, prio, holder):
    from hypothesis import strategies as st
    orig = ctx.hyp

    def fake_hyp(check, *a, **k):
        holder["out"] = check(src, dest, prio)
    ctx.hyp = fake_hyp
    try:
        _public(ctx, ([d.key], 1))
    finally:
        ctx.hyp = orig
