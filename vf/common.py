"""Shared runner machinery: tiers, seeds, sharding, evidence, violations, known findings.

Contract (see DESIGN.md 2.2):
  exit 0  property held on everything explored (KNOWN-FINDING lines allowed)
  exit 1  + "VIOLATION property=<id> replay=<path>" for every discrepancy bucket not listed as open
          in known_findings.json
  exit 2  harness error / inconclusive (never a violation)
"""
from __future__ import annotations

import collections
import fnmatch
import hashlib
import json
import logging
import multiprocessing
import os
import sys
import time
import traceback

VERIF = os.path.dirname(os.path.dirname(os.path.abspath(__file__)))
REPO = os.environ.get("VF_REPO", "/repo")
if REPO not in sys.path[:1]:
    sys.path.insert(0, REPO)

# the guard the manifest names; no source hook depends on it today, but every check sets it so
# that any guarded instrumentation added later is switched on the same way everywhere
os.environ.setdefault("NMEA2000_VERIF", "1")

logging.disable(logging.CRITICAL)

# Ambient conditions: every check repeats its quick tier in fresh interpreters started like this (see sub_pass / vf/main.py).
#  A: python -O (assert statements are not executed), local time zone west of Greenwich, the library's DEBUG logging enabled,
#     a host application that lowered the decimal context precision, the C locale (files opened without an encoding are ASCII)
#  B: local time zone far east of Greenwich, another string-hash seed (set / dict iteration orders of str keys differ)
AMBIENTS = [
    ("ambient-O-west-debuglog", ["-O"], {"TZ": "PST8PDT", "VF_AMBIENT": "debuglog,decimal6", "LC_ALL": "C", "LANG": "C", "PYTHONUTF8": "0",
                                        "PYTHONCOERCECLOCALE": "0", "PYTHONIOENCODING": "utf-8"}),
    ("ambient-east", [], {"TZ": "XXX-14", "VF_AMBIENT": "", "PYTHONHASHSEED": "12345"}),
]
if "debuglog" in os.environ.get("VF_AMBIENT", ""):
    logging.disable(logging.NOTSET)
    logging.getLogger().addHandler(logging.NullHandler())
    logging.getLogger().setLevel(logging.DEBUG)
    logging.getLogger("nmea2000").setLevel(logging.DEBUG)
    for _n in ("hypothesis", "asyncio"):
        logging.getLogger(_n).setLevel(logging.WARNING)
if "decimal6" in os.environ.get("VF_AMBIENT", ""):
    import decimal as _decimal
    _decimal.setcontext(_decimal.Context(prec=6))
    _decimal.DefaultContext.prec = 6


import contextlib


@contextlib.contextmanager
def debug_logging():
    """Run a block with the library's logging fully enabled (DEBUG, records swallowed by a NullHandler): what the repository's own
    test suite and its CLI's verbose mode configure.  Everything else in the checks runs with logging disabled."""
    root, lib = logging.getLogger(), logging.getLogger("nmea2000")
    old = (root.manager.disable, root.level, lib.level)
    if not any(isinstance(h, logging.NullHandler) for h in root.handlers):
        root.addHandler(logging.NullHandler())
    logging.disable(logging.NOTSET)
    root.setLevel(logging.DEBUG)
    lib.setLevel(logging.DEBUG)
    try:
        yield
    finally:
        root.setLevel(old[1])
        lib.setLevel(old[2])
        logging.disable(old[0])


# ---- controllable process clock --------------------------------------------------------------------
# Installed before the library under test is imported, so that both `time.monotonic()` and `from time import monotonic`
# inside it see these wrappers.  With offset 0 they are the real clocks; a check may "warp" time forward between two
# inputs (e.g. between two frames of a fast-packet message) to expose behaviour that depends on elapsed real time.
import time as _time


class _Clock:
    offset = 0.0        # added to every clock (time passes)
    wall = 0.0          # added to the wall clocks only (the system time is stepped: NTP correction, DST change, operator)

    def warp(self, seconds: float):
        _Clock.offset += seconds

    def step_wall(self, seconds: float):
        """The wall clock (time.time, datetime.now as the library sees it) jumps by `seconds` (may be negative); monotonic clocks do not."""
        _Clock.wall += seconds

    def reset(self):
        _Clock.offset = 0.0
        _Clock.wall = 0.0


CLOCK = _Clock()
if not getattr(_time, "_vf_wrapped", False):
    _real = {n: getattr(_time, n) for n in ("monotonic", "time", "perf_counter", "monotonic_ns", "time_ns", "perf_counter_ns")}
    _time.monotonic = lambda: _real["monotonic"]() + _Clock.offset
    _time.time = lambda: _real["time"]() + _Clock.offset + _Clock.wall
    _time.perf_counter = lambda: _real["perf_counter"]() + _Clock.offset
    _time.monotonic_ns = lambda: _real["monotonic_ns"]() + int(_Clock.offset * 1e9)
    _time.time_ns = lambda: _real["time_ns"]() + int((_Clock.offset + _Clock.wall) * 1e9)
    _time.perf_counter_ns = lambda: _real["perf_counter_ns"]() + int(_Clock.offset * 1e9)
    _time._vf_wrapped = True
    REAL_TIME = _real["time"]
else:
    REAL_TIME = _time.time

import datetime as _dtmod


class _WallDatetime(_dtmod.datetime):
    """What the library sees as `datetime` (module attribute replaced in the harness process only): now() follows the controllable
    clocks above; everything it returns is a plain datetime."""

    @classmethod
    def now(cls, tz=None):
        return _dtmod.datetime.now(tz) + _dtmod.timedelta(seconds=_Clock.offset + _Clock.wall)

    @classmethod
    def utcnow(cls):
        return _dtmod.datetime.utcnow() + _dtmod.timedelta(seconds=_Clock.offset + _Clock.wall)

    @classmethod
    def today(cls):
        return cls.now()

    @classmethod
    def strptime(cls, s, f):
        return _dtmod.datetime.strptime(s, f)

    @classmethod
    def fromtimestamp(cls, *a, **k):
        return _dtmod.datetime.fromtimestamp(*a, **k)


def patch_library_clock():
    import importlib
    for name in ("decoder", "ioclient", "encoder", "utils", "message"):
        try:
            mod = importlib.import_module("nmea2000." + name)
        except Exception:
            continue
        if getattr(mod, "datetime", None) is _dtmod.datetime:
            mod.datetime = _WallDatetime


patch_library_clock()

class HangDetected(BaseException):
    """(BaseException: the library's own `except Exception` handlers must not swallow it)"""


HANGS: list = []        # every time a hang guard fired in this process (an asyncio task may swallow the exception itself)


@contextlib.contextmanager
def hang_guard(seconds: float):
    """Raise HangDetected inside the block if it has not finished after `seconds` of real time (a library call that never returns is a
    finding, not a reason for the check to sit until its wall-clock cap). Uses SIGALRM of the current (worker) process."""
    import signal

    def on_alarm(signum, frame):
        HANGS.append(f"no return after {seconds} s of real time")
        raise HangDetected(f"no return after {seconds} s")
    old = signal.signal(signal.SIGALRM, on_alarm)
    old_timer = signal.setitimer(signal.ITIMER_REAL, seconds)
    try:
        yield
    finally:
        signal.setitimer(signal.ITIMER_REAL, 0)
        signal.signal(signal.SIGALRM, old)
        if old_timer and old_timer[0] > 0:
            signal.setitimer(signal.ITIMER_REAL, old_timer[0])


NPROC = min(16, os.cpu_count() or 1)


def tier() -> str:
    return os.environ.get("VERIF_TIER", "quick")


def seed() -> int:
    try:
        return int(os.environ.get("VERIF_SEED", "1"))
    except ValueError:
        return 1


def h64(obj) -> int:
    """Stable 64-bit hash of a JSON-able / repr-able case key."""
    if not isinstance(obj, (bytes, bytearray)):
        obj = repr(obj).encode()
    return int.from_bytes(hashlib.blake2b(obj, digest_size=8).digest(), "big")


def jsonable(o):
    """Best-effort conversion for replay / evidence files."""
    if isinstance(o, (str, int, bool)) or o is None:
        return o
    if isinstance(o, float):
        if o != o or o in (float("inf"), float("-inf")):
            return repr(o)
        return o
    if isinstance(o, (bytes, bytearray)):
        return {"hex": bytes(o).hex()}
    if isinstance(o, dict):
        return {str(k): jsonable(v) for k, v in o.items()}
    if isinstance(o, (list, tuple, set, frozenset)):
        return [jsonable(v) for v in o]
    return repr(o)


def _is_flaky(e):
    return "Flaky" in type(e).__name__ or any("Flaky" in c.__name__ for c in type(e).__mro__)


class Discrepancy(Exception):
    def __init__(self, bucket, what, case):
        super().__init__(f"{bucket}: {what}")
        self.bucket = bucket
        self.what = what
        self.case = case


class Ctx:
    """Per-run (and per-shard) accumulator."""

    MAX_SAMPLES = 8

    def __init__(self, pid: str, shard: int = 0):
        self.pid = pid
        self.shard = shard
        self.tier = tier()
        self.quick = self.tier != "thorough"
        self.seed = seed()
        self.evaluations = 0
        self.nontrivial: set[int] = set()
        self.nontrivial_extra = 0        # distinct-by-construction cases of exhaustive sweeps
        self.samples: list = []
        self._sample_seen = 0
        self.classes: collections.Counter = collections.Counter()
        self.found: dict[str, dict] = {}         # bucket -> {what, case}
        self.excluded_known: collections.Counter = collections.Counter()
        self.notes: dict = {}
        self.known_open = load_known(pid)
        self.exhaustive = None

    # ---- counting -------------------------------------------------------------------------
    def count(self, n: int = 1):
        self.evaluations += n

    def nt(self, key):
        self.nontrivial.add(h64(key))

    def klass(self, name, n: int = 1):
        self.classes[name] += n

    def sample(self, obj):
        """Keep the first few and then a thinning selection, so samples are spread over the run."""
        self._sample_seen += 1
        if len(self.samples) < self.MAX_SAMPLES:
            self.samples.append(jsonable(obj))
        elif self._sample_seen & (self._sample_seen - 1) == 0:  # powers of two
            self.samples[self._sample_seen.bit_length() % self.MAX_SAMPLES] = jsonable(obj)

    # ---- discrepancies --------------------------------------------------------------------
    def is_known(self, bucket: str) -> bool:
        for pat in self.known_open:
            if bucket == pat or fnmatch.fnmatchcase(bucket, pat):
                return True
        return False

    def report(self, bucket: str, what: str, case) -> bool:
        """Record a discrepancy found by an enumeration. Returns True if it is new and not known."""
        if self.is_known(bucket):
            self.excluded_known[bucket] += 1
            return False
        if bucket not in self.found:
            self.found[bucket] = {"what": what, "case": jsonable(case)}
            return True
        if len(repr(jsonable(case))) < len(repr(self.found[bucket]["case"])):
            self.found[bucket] = {"what": what, "case": jsonable(case)}
        return False

    def fresh(self, discrepancies):
        """Filter (bucket, what, case) triples down to those neither known nor already recorded."""
        out = []
        for b, w, c in discrepancies:
            if self.is_known(b):
                self.excluded_known[b] += 1
            elif b not in self.found:
                out.append((b, w, c))
        return out

    # ---- Hypothesis driver: collect, bucket, then shrink ----------------------------------
    def hyp(self, check, *strategies, max_examples: int, name: str = "", rounds: int = 6, shrink: bool = True,
            stateful_step_count: int | None = None):
        """Run `check(*drawn)` -> iterable of (bucket, what, case) under Hypothesis.

        A failure is raised only for a bucket that is neither an open known finding nor already
        recorded in this run; while Hypothesis shrinks, only the same bucket counts as failing, so
        the minimal example belongs to the root cause first seen.  After each failure the bucket
        is excluded by construction and the search is run again, so a run reports every distinct
        root cause it can reach, each with its own shrunk replay.
        """
        import hypothesis
        from hypothesis import HealthCheck, Phase, given, settings
        from hypothesis.strategies import tuples as st_tuples

        phases = [Phase.explicit, Phase.generate, Phase.target] + ([Phase.shrink] if shrink else [])
        st_kwargs = dict(max_examples=max_examples, deadline=None, database=None, derandomize=False,
                         report_multiple_bugs=False, phases=phases,
                         suppress_health_check=list(HealthCheck), print_blob=False)
        if stateful_step_count is not None:
            st_kwargs["stateful_step_count"] = stateful_step_count
        cfg = settings(**st_kwargs)
        base_seed = self.seed * 1000 + self.shard
        for rnd in range(rounds):
            state = {"target": None, "last": None}

            def body(args):
                try:
                    res = check(*args)
                except Exception as e:
                    where = library_frame(e)
                    if where is None:
                        raise
                    # the library raised on an input this check feeds it on purpose (and that it accepts on the unchanged tree): reported
                    # as a discrepancy of its own kind instead of stopping the whole check as a harness error
                    res = [(f"{self.pid}|library-exception|{name}|{type(e).__name__}:{str(e)[:40]}",
                            f"the library raised {type(e).__name__}: {e} (in {where}) on a generated case of pass '{name}'", {"generated": repr(args)[:2000]})]
                res = self.fresh(res)
                if not res:
                    return
                if state["target"] is None:
                    state["target"] = res[0][0]
                for b, w, c in res:
                    if b == state["target"]:
                        state["last"] = (b, w, c)
                        raise Discrepancy(b, w, c)

            test = hypothesis.seed(base_seed * 10 + rnd)(cfg(given(st_tuples(*strategies))(body)))
            try:
                test()
                return
            except Discrepancy:
                pass
            except hypothesis.errors.HypothesisException as e:
                # state leaking between cases (exactly what some properties look for) makes a failure "flaky" for
                # Hypothesis; the discrepancy it saw is real and was recorded, so report that
                if not (_is_flaky(e) and state["last"] is not None):
                    raise
            except BaseException as e:  # Hypothesis re-raises the original error of the minimal example
                if not isinstance(e, Exception):
                    raise
                if state["last"] is None:
                    raise
            b, w, c = state["last"]
            self.found[b] = {"what": w, "case": jsonable(c), "via": name or "hypothesis"}

    # ---- merge ------------------------------------------------------------------------------
    def export(self):
        return dict(evaluations=self.evaluations, nontrivial=self.nontrivial, nontrivial_extra=self.nontrivial_extra,
                    samples=self.samples, classes=self.classes, found=self.found,
                    excluded_known=self.excluded_known, notes=self.notes)

    def merge(self, d):
        self.evaluations += d["evaluations"]
        self.nontrivial |= d["nontrivial"]
        self.nontrivial_extra += d["nontrivial_extra"]
        for s in d["samples"]:
            if len(self.samples) < self.MAX_SAMPLES:
                self.samples.append(s)
        self.classes.update(d["classes"])
        for b, v in d["found"].items():
            # keep the smaller reproduction of a bucket
            if b not in self.found or len(repr(v["case"])) < len(repr(self.found[b]["case"])):
                self.found[b] = v
        self.excluded_known.update(d["excluded_known"])
        for k, v in d["notes"].items():
            if isinstance(v, (int, float)) and isinstance(self.notes.get(k), (int, float)):
                self.notes[k] += v
            elif isinstance(v, (set, frozenset)):
                self.notes[k] = set(self.notes.get(k, set())) | set(v)
            elif isinstance(v, collections.Counter):
                self.notes.setdefault(k, collections.Counter()).update(v)
            elif isinstance(v, dict):
                self.notes.setdefault(k, {}).update(v)
            else:
                self.notes.setdefault(k, v)


def load_known(pid: str):
    path = os.path.join(VERIF, "known_findings.json")
    try:
        with open(path) as f:
            data = json.load(f)
    except FileNotFoundError:
        return {}
    out = {}
    for e in data.get("findings", []):
        if e.get("property") == pid and e.get("status") == "open":
            out[e["bucket"]] = e.get("what", "")
    return out


# ---- sharded execution ----------------------------------------------------------------------
_SHARD_FN = None


def library_frame(e: BaseException):
    """'file:line function' of the innermost frame if the exception was raised inside the library under test, else None."""
    tb = e.__traceback__
    last = None
    while tb is not None:
        last = tb
        tb = tb.tb_next
    if last is None:
        return None
    fn = last.tb_frame.f_code.co_filename
    lib = os.path.join(os.path.realpath(REPO), "nmea2000") + os.sep
    if os.path.realpath(fn).startswith(lib):
        return f"{os.path.basename(fn)}:{last.tb_lineno} {last.tb_frame.f_code.co_name}"
    return None


def _shard_entry(args):
    pid, shard, item = args
    ctx = Ctx(pid, shard)
    try:
        _SHARD_FN(ctx, item)
    except Exception as e:
        where = library_frame(e)
        if where is None:
            return {"error": traceback.format_exc(), "shard": shard}
        # (see Ctx.hyp) a library call this pass makes on purpose raised: a discrepancy, and the rest of this shard's work is lost
        ctx.report(f"{pid}|library-exception|{getattr(_SHARD_FN, '__name__', 'pass')}|{type(e).__name__}:{str(e)[:40]}",
                   f"the library raised {type(e).__name__}: {e} (in {where}) during pass {getattr(_SHARD_FN, '__name__', '?')}; item {repr(item)[:200]}",
                   {"generated": repr(item)[:2000]})
    except BaseException:
        return {"error": traceback.format_exc(), "shard": shard}
    return ctx.export()


def pmap(ctx: Ctx, fn, items, procs: int = NPROC):
    """Run fn(child_ctx, item) for each item in forked workers and merge the children into ctx."""
    global _SHARD_FN
    items = list(items)
    if not items:
        return
    _SHARD_FN = fn
    procs = max(1, min(procs, len(items)))
    if procs == 1:
        results = [_shard_entry((ctx.pid, i + 1, it)) for i, it in enumerate(items)]
    else:
        mp = multiprocessing.get_context("fork")
        with mp.Pool(procs) as pool:
            results = pool.map(_shard_entry, [(ctx.pid, i + 1, it) for i, it in enumerate(items)], chunksize=1)
    for r in results:
        if "error" in r:
            raise RuntimeError("shard %s failed:\n%s" % (r["shard"], r["error"]))
        ctx.merge(r)


def chunks(seq, n):
    seq = list(seq)
    k = max(1, (len(seq) + n - 1) // n)
    return [seq[i:i + k] for i in range(0, len(seq), k)]


# ---- finishing ---------------------------------------------------------------------------------
def finish(ctx: Ctx, *, level: str, rule: str, assumptions, t0: float, extra=None) -> int:
    pid = ctx.pid
    alt = os.environ.get("VF_EVIDENCE_DIR")      # self-test runs against mutated copies must not touch the real evidence
    ev_dir = alt or os.path.join(VERIF, "evidence")
    rp_dir = os.path.join(alt, "replays") if alt else os.path.join(VERIF, "replays")
    os.makedirs(ev_dir, exist_ok=True)
    violations = []
    for bucket, info in sorted(ctx.found.items()):
        d = os.path.join(rp_dir, pid)
        os.makedirs(d, exist_ok=True)
        path = os.path.join(d, "%016x.json" % h64(bucket))
        with open(path, "w") as f:
            json.dump({"property": pid, "bucket": bucket, "what": info["what"], "case": info["case"],
                       "seed": ctx.seed, "tier": ctx.tier}, f, indent=1, sort_keys=True)
        violations.append((bucket, info["what"], os.path.relpath(path, VERIF) if not alt else path))
    distinct = len(ctx.nontrivial) + ctx.nontrivial_extra
    coverage = {
        "evaluations": int(ctx.evaluations),
        "distinct_nontrivial": int(distinct),
        "rule": rule,
        "samples": ctx.samples[: Ctx.MAX_SAMPLES],
        "classes": dict(sorted(ctx.classes.items())),
        "excluded_known": dict(ctx.excluded_known),
    }
    if ctx.exhaustive is not None:
        coverage["exhaustive"] = bool(ctx.exhaustive)
    for k, v in ctx.notes.items():
        if isinstance(v, (set, frozenset)):
            v = sorted(v)[:50] if len(v) <= 50 else len(v)
        elif isinstance(v, collections.Counter):
            v = dict(sorted(v.items()))
        coverage[k] = jsonable(v) if not isinstance(v, (int, float, str, list, dict)) else v
    if extra:
        coverage.update(extra)
    ev = {
        "property_id": pid, "tier": ctx.tier if ctx.tier in ("quick", "thorough") else "quick",
        "seed": ctx.seed, "level": level, "coverage": coverage,
        "assumptions": list(assumptions), "wall_s": round(max(0.0, time.time() - CLOCK.offset - t0), 2),
        "violations": len(violations),
    }
    with open(os.path.join(ev_dir, pid + ".json"), "w") as f:
        json.dump(ev, f, indent=1, sort_keys=True, default=repr)
    for bucket, what in sorted(ctx.known_open.items()):
        hits = sum(n for b, n in ctx.excluded_known.items() if b == bucket or fnmatch.fnmatchcase(b, bucket))
        print(f"KNOWN-FINDING: property={pid} {bucket}: {what} (excluded {hits} case(s) this run)")
    print(f"[{pid}] tier={ctx.tier} seed={ctx.seed} evaluations={ctx.evaluations} distinct_nontrivial={distinct} "
          f"wall={ev['wall_s']}s violations={len(violations)}")
    if ctx.evaluations == 0 or distinct < 2:
        print(f"[{pid}] inconclusive: nothing (non-trivial) was explored", file=sys.stderr)
        return 2
    for bucket, what, path in violations:
        print(f"  bucket {bucket}: {what}")
        print(f"VIOLATION property={pid} replay={path}")
    return 1 if violations else 0


# ---- the same check under other interpreter conditions --------------------------------------------
def sub_pass(ctx: Ctx, flags, tag: str, env_extra=None):
    """Run this property's quick tier once more in a fresh interpreter started with `flags` (e.g. -O: assert statements are not
    executed) and fold what it finds into this run. Buckets get the suffix |<tag>; the replay file records the flags and
    `check --replay` re-executes itself with them."""
    import subprocess
    import tempfile
    if os.environ.get("VF_SUBPASS"):
        return
    tmp = tempfile.mkdtemp(prefix="vfsub")
    try:
        env = dict(os.environ, VF_EVIDENCE_DIR=tmp, VF_SUBPASS=tag, VERIF_TIER="quick", VERIF_SEED=str(ctx.seed))
        env.update(env_extra or {})
        p = subprocess.run([sys.executable] + list(flags) + ["-m", "vf.main", ctx.pid, "quick"], cwd=VERIF, env=env, capture_output=True, text=True)
        if p.returncode not in (0, 1):
            raise RuntimeError(f"sub-pass {tag} of {ctx.pid} failed (exit {p.returncode}):\n{p.stdout[-1500:]}\n{p.stderr[-1500:]}")
        with open(os.path.join(tmp, ctx.pid + ".json")) as f:
            ev = json.load(f)
        n = int(ev["coverage"]["evaluations"])
        ctx.count(n)
        ctx.nontrivial_extra += int(ev["coverage"]["distinct_nontrivial"])
        ctx.klass("subpass:" + tag, n)
        for b, k in ev["coverage"].get("excluded_known", {}).items():
            ctx.excluded_known[b] = ctx.excluded_known.get(b, 0) + k
        rdir = os.path.join(tmp, "replays", ctx.pid)
        if os.path.isdir(rdir):
            for fn in sorted(os.listdir(rdir)):
                with open(os.path.join(rdir, fn)) as f:
                    rep = json.load(f)
                how = " ".join(list(flags) + [f"{k}={v}" for k, v in (env_extra or {}).items()])
                ctx.report(rep["bucket"] + "|" + tag, rep["what"] + f" [interpreter started with {how}]",
                           dict(rep["case"], interpreter_flags=list(flags), interpreter_env=dict(env_extra or {})))
    finally:
        import shutil
        shutil.rmtree(tmp, ignore_errors=True)


# ---- stateful (rule-based) driver ----------------------------------------------------------------
def hyp_machine(ctx: Ctx, make_machine, *, max_examples: int, step_count: int, name: str = "machine", rounds: int = 6,
                shrink: bool = True):
    """Run a Hypothesis RuleBasedStateMachine with the collect-bucket-shrink protocol of Ctx.hyp.

    make_machine(flag) must return a RuleBasedStateMachine subclass; the machine calls flag(list of (bucket, what, case))
    after every step (typically from an @invariant or at the end of each rule)."""
    import hypothesis
    from hypothesis import HealthCheck, Phase, settings
    from hypothesis.stateful import run_state_machine_as_test

    phases = [Phase.explicit, Phase.generate, Phase.target] + ([Phase.shrink] if shrink else [])
    cfg = settings(max_examples=max_examples, stateful_step_count=step_count, deadline=None, database=None, derandomize=False,
                   report_multiple_bugs=False, phases=phases, suppress_health_check=list(HealthCheck), print_blob=False,
                   verbosity=hypothesis.Verbosity.quiet)
    base_seed = ctx.seed * 1000 + ctx.shard
    for rnd in range(rounds):
        state = {"target": None, "last": None}

        def flag(discrepancies):
            res = ctx.fresh(discrepancies)
            if not res:
                return
            if state["target"] is None:
                state["target"] = res[0][0]
            for b, w, c in res:
                if b == state["target"]:
                    state["last"] = (b, w, c)
                    raise Discrepancy(b, w, c)

        machine = hypothesis.seed(base_seed * 10 + rnd)(make_machine(flag))
        try:
            run_state_machine_as_test(machine, settings=cfg)
            return
        except Discrepancy:
            pass
        except hypothesis.errors.HypothesisException as e:
            if not (_is_flaky(e) and state["last"] is not None):
                raise
        except Exception:
            if state["last"] is None:
                raise
        b, w, c = state["last"]
        ctx.found[b] = {"what": w, "case": jsonable(c), "via": name}
