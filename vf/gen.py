"""Hypothesis strategies and systematic enumerations over the database (DESIGN.md 2.4).

Everything is constructed, nothing is rejected: an "accepted" payload is built from in-range classes only.
"""
from __future__ import annotations

import math
import struct
from fractions import Fraction

from hypothesis import strategies as st

from . import canboat
from .canboat import Definition, Field

# classes whose raw value lies inside the database range (or is the not-available code)
IN_CLASSES = ("zero_in", "range_min", "range_max", "just_in_lo", "just_in_hi", "na", "uniform_in", "one_in", "value_zero", "value_one", "source_constant", "magnitude_edge")
OUT_CLASSES = ("just_out_lo", "just_out_hi", "all_ones", "na_minus_1", "sign_lo", "sign_hi", "sign_hi1", "uniform", "zero")
BOUNDARY = ("range_min", "range_max", "just_in_lo", "just_in_hi", "na", "just_out_lo", "just_out_hi", "all_ones",
            "na_minus_1", "sign_lo", "sign_hi", "sign_hi1", "table_miss", "f_special", "str_multibyte", "str_utf16",
            "str_empty", "str_max", "str_bytes", "match_foreign", "match_bitflip", "source_constant", "value_zero", "value_one", "magnitude_edge")


def _unsigned(f: Field, s: int) -> int:
    return s & ((1 << f.bits) - 1)


def raw_bounds(f: Field):
    """(lo, hi): smallest and largest *denoted integers* (signed domain) whose exact value is inside the database range,
    clipped to what the bit width can carry and excluding the not-available code. None if the field has no range."""
    if f.rmin is None or f.rmax is None or f.bits is None:
        return None
    off = f.offset if f.offset is not None else Fraction(0)
    lo = math.ceil((f.rmin - off) / f.res)
    hi = math.floor((f.rmax - off) / f.res)
    if f.signed and f.offset is None:
        wlo, whi = -(1 << (f.bits - 1)), (1 << (f.bits - 1)) - 1
    else:
        wlo, whi = 0, (1 << f.bits) - 1
    lo, hi = max(lo, wlo), min(hi, whi)
    na = f.na_code()
    if na is not None and not f.na_in_range():
        na_s = f.to_signed(na)
        if hi == na_s:
            hi -= 1
    if lo > hi:
        return None
    return lo, hi


_SRC_CONSTS = None


def source_constants():
    """Numeric literals harvested from the hand-written sources of the library under test (not the generated pgns.py/consts.py):
    a dictionary of 'interesting' numbers in the fuzzing sense - thresholds, special values, masks."""
    global _SRC_CONSTS
    if _SRC_CONSTS is None:
        import ast
        import os
        from .common import REPO
        vals = set()
        for fn in ("utils.py", "decoder.py", "encoder.py", "message.py", "ioclient.py"):
            try:
                tree = ast.parse(open(os.path.join(REPO, "nmea2000", fn)).read())
            except Exception:
                continue
            for node in ast.walk(tree):
                if isinstance(node, ast.Constant) and isinstance(node.value, (int, float)) and not isinstance(node.value, bool):
                    v = node.value
                    if v == v and abs(v) < 1e30:
                        vals.add(v)
                        vals.add(-v)
        _SRC_CONSTS = sorted(vals)
    return _SRC_CONSTS


def number_classes(f: Field):
    """dict class -> unsigned raw (int) or ('range', lo, hi) for drawn classes."""
    n = f.bits
    full = (1 << n) - 1
    out = {"zero": 0, "all_ones": full, "uniform": ("range", 0, full)}
    na = f.na_code()
    if na is not None:
        out["na"] = na
        out["na_minus_1"] = na - 1
    if n >= 2:
        out["sign_lo"] = (1 << (n - 1)) - 1
        out["sign_hi"] = 1 << (n - 1)
        if n >= 3:
            out["sign_hi1"] = (1 << (n - 1)) + 1
    b = raw_bounds(f)
    if b:
        lo, hi = b
        out["range_min"] = _unsigned(f, lo)
        out["range_max"] = _unsigned(f, hi)
        if hi - lo >= 2:
            out["just_in_lo"] = _unsigned(f, lo + 1)
            out["just_in_hi"] = _unsigned(f, hi - 1)
        out["uniform_in"] = ("srange", lo, hi)
        if lo <= 0 <= hi:
            out["zero_in"] = _unsigned(f, 0)
        if lo <= 1 <= hi:
            out["one_in"] = _unsigned(f, 1)
        if f.offset is not None:
            # the raw that denotes the VALUE zero of an excess-K field (an interior raw value)
            r0 = (Fraction(0) - f.offset) / f.res
            if r0.denominator == 1 and lo <= r0 <= hi:
                out["value_zero"] = _unsigned(f, int(r0))
                out["value_one"] = _unsigned(f, min(int(r0) + 1, hi))
        if f.signed and f.offset is None:
            wlo, whi = -(1 << (n - 1)), (1 << (n - 1)) - 1
        else:
            wlo, whi = 0, full
        if lo - 1 >= wlo:
            out["just_out_lo"] = _unsigned(f, lo - 1)
        if hi + 1 <= whi and (na is None or _unsigned(f, hi + 1) != na):
            out["just_out_hi"] = _unsigned(f, hi + 1)
        elif hi + 2 <= whi:
            out["just_out_hi"] = _unsigned(f, hi + 2)
    else:
        out["uniform_in"] = ("range", 0, full - 1 if na == full else full)
        out["zero_in"] = 0
    # numbers that occur literally in the library's sources, read both as a raw and as a value of this field
    cands = set()
    off = f.offset if f.offset is not None else Fraction(0)
    for c in source_constants():
        for r in (Fraction(c), (Fraction(c) - off) / f.res):
            for rr in (r.__floor__(), r.__ceil__()):
                if b and b[0] <= rr <= b[1]:
                    cands.add(_unsigned(f, rr))
    cands -= {v for v in out.values() if isinstance(v, int)}
    if cands:
        out["source_constant"] = ("choice", sorted(cands)[:200])
    # magnitudes where arithmetic changes character: raws and VALUES at 2^k-1, 2^k, 2^k+1 and 10^k-1, 10^k, 10^k+1 (also negative),
    # and raws with regular byte patterns
    edge = set()
    if b:
        mags = [2 ** k for k in range(1, n + 1)] + [10 ** k for k in range(1, 20) if 10 ** k < (1 << n)]
        for m in mags:
            for c in (m - 1, m, m + 1):
                for sgn in ((1, -1) if b[0] < 0 else (1,)):
                    for r in (Fraction(sgn * c), (Fraction(sgn * c) - off) / f.res):
                        for rr in (r.__floor__(), r.__ceil__()):
                            if b[0] <= rr <= b[1]:
                                edge.add(_unsigned(f, rr))
        if n >= 16:
            for pat in (0x55, 0xAA, 0x0F, 0xF0, 0x01, 0x80, 0x7F, 0xFE):
                for v in (int.from_bytes(bytes([pat]) * ((n + 7) // 8), "little") & full, (pat << (n - 8)) & full, pat):
                    sv = v - (1 << n) if (f.signed and f.offset is None and v >> (n - 1)) else v
                    if b[0] <= sv <= b[1]:
                        edge.add(v)
    edge -= {v for v in out.values() if isinstance(v, int)}
    if edge:
        edge = sorted(edge)
        if len(edge) > 160:
            step = len(edge) / 160.0
            edge = [edge[int(i * step)] for i in range(160)]
        out["magnitude_edge"] = ("choice", edge)
    return out


F32_SPECIALS = [0x00000000, 0x80000000, 0x00000001, 0x80000001, 0x007FFFFF, 0x7F7FFFFF, 0xFF7FFFFF, 0x7F800000, 0xFF800000,
                0x7FC00000, 0xFFC00001, 0x3F800000, 0xBF800000]


def f32bits(x: float) -> int:
    return struct.unpack("<I", struct.pack("<f", x))[0]


def float_classes(f: Field):
    out = {"zero_in": 0, "f_special": ("choice", F32_SPECIALS), "uniform": ("range", 0, 0xFFFFFFFF)}
    if f.rmin is not None:
        lo, hi = float(f.rmin), float(f.rmax)
        # largest binary32 <= hi and smallest >= lo
        def down(x):
            b = f32bits(x)
            v = struct.unpack("<f", struct.pack("<I", b))[0]
            while v > x:
                b = b - 1 if v > 0 else b + 1
                v = struct.unpack("<f", struct.pack("<I", b))[0]
            return b
        def up(x):
            b = f32bits(x)
            v = struct.unpack("<f", struct.pack("<I", b))[0]
            while v < x:
                b = b + 1 if v >= 0 and b != 0x80000000 else (b - 1 if b != 0x80000000 else 0)
                v = struct.unpack("<f", struct.pack("<I", b))[0]
            return b
        try:
            out["range_max"] = down(hi)
            out["range_min"] = up(lo)
            out["uniform_in"] = ("f_in", canboat.f32(out["range_min"]), canboat.f32(out["range_max"]))
        except (OverflowError, struct.error):
            out["uniform_in"] = ("range", 0, 0x7F7FFFFF)
    else:
        out["uniform_in"] = ("range", 0, 0x7F7FFFFF)
    return out


def lookup_classes(f: Field):
    database = canboat.db()
    n = f.bits
    full = (1 << n) - 1
    out = {"zero": 0, "all_ones": full, "uniform": ("range", 0, full), "uniform_in": ("range", 0, full)}
    if f.type == "LOOKUP":
        keys = [k for k in database.lookups[f.lookup] if 0 <= k <= full]
        if keys:
            out["table_key"] = ("choice", keys)
        miss = [k for k in range(min(full + 1, 4096)) if k not in database.lookups[f.lookup]]
        if miss:
            out["table_miss"] = ("choice", miss[:64])
    elif f.type == "BITLOOKUP":
        bits = [b for b in database.bitlookups[f.bitlookup] if b < n]
        if bits:
            out["table_key"] = ("choice", [1 << b for b in bits] + [sum(1 << b for b in bits)])
    elif f.type == "INDIRECT_LOOKUP":
        out["table_key"] = ("choice", sorted({v2 for (_, v2) in database.indirect[f.indirect] if v2 <= full}) or [0])
    return out


ASCII_ALPHABET = "ABCDEFGHIJKLMNOPQRSTUVWXYZabcdefghijklmnopqrstuvwxyz0123456789-_./:#+ "


def _clean_ascii(maxlen):
    return st.text(alphabet=ASCII_ALPHABET, min_size=0, max_size=maxlen).map(lambda s: s.strip())


@st.composite
def string_fix(draw, f: Field):
    nbytes = (f.bits + 7) // 8
    cls = draw(st.sampled_from(["str_clean", "str_clean", "str_empty", "str_max", "str_multibyte", "str_bytes"]))
    if cls == "str_clean":
        s = draw(_clean_ascii(nbytes))[:nbytes].strip().encode()
        pad = draw(st.sampled_from([0x00, 0xFF, 0x40, 0x20]))
        b = s + bytes([pad]) * (nbytes - len(s))
    elif cls == "str_empty":
        b = bytes([draw(st.sampled_from([0x00, 0xFF, 0x40, 0x20]))]) * nbytes
    elif cls == "str_max":
        s = draw(st.text(alphabet=ASCII_ALPHABET.strip(), min_size=nbytes, max_size=nbytes))
        b = s.encode()
    elif cls == "str_multibyte":
        s = draw(st.text(alphabet="äöüéñßøÅ€漢字", min_size=1, max_size=max(1, nbytes // 3))).encode("utf-8")[:nbytes]
        b = s + bytes(nbytes - len(s))
    else:
        b = draw(st.binary(min_size=nbytes, max_size=nbytes))
    return cls, int.from_bytes(b, "little") & ((1 << f.bits) - 1), f.bits


@st.composite
def string_lau(draw, f: Field, maxchars=12):
    cls = draw(st.sampled_from(["str_clean", "str_clean", "str_empty", "str_utf16", "str_bytes", "str_multibyte"]))
    if cls == "str_clean":
        body, typ = draw(_clean_ascii(maxchars)).encode(), 1
    elif cls == "str_empty":
        body, typ = b"", draw(st.sampled_from([0, 1]))
    elif cls == "str_utf16":
        body, typ = draw(st.text(alphabet="ABCabc äöü漢字Ω", min_size=1, max_size=maxchars)).encode("utf-16-le"), 0
    elif cls == "str_multibyte":
        body, typ = draw(st.text(alphabet="äöü漢字", min_size=1, max_size=maxchars // 2)).encode("utf-8"), 1
    else:
        body, typ = draw(st.binary(min_size=0, max_size=maxchars)), draw(st.sampled_from([0, 1]))
    b = bytes([len(body) + 2, typ]) + body
    return cls, int.from_bytes(b, "little"), 8 * len(b)


@st.composite
def string_lz(draw, f: Field, maxchars=16):
    cls = draw(st.sampled_from(["str_clean", "str_clean", "str_empty", "str_multibyte", "str_bytes"]))
    if cls == "str_clean":
        body = draw(_clean_ascii(maxchars)).encode()
    elif cls == "str_empty":
        body = b""
    elif cls == "str_multibyte":
        body = draw(st.text(alphabet="äöü漢字", min_size=1, max_size=maxchars // 3)).encode("utf-8")
    else:
        body = draw(st.binary(min_size=0, max_size=maxchars))
    b = bytes([len(body)]) + body + b"\x00"
    return cls, int.from_bytes(b, "little"), 8 * len(b)


def classes_for(f: Field):
    if f.type in canboat.NUMBERLIKE:
        return number_classes(f)
    if f.type == "FLOAT":
        return float_classes(f)
    if f.type in ("LOOKUP", "BITLOOKUP", "INDIRECT_LOOKUP"):
        return lookup_classes(f)
    if f.bits is not None:
        full = (1 << f.bits) - 1
        return {"zero": 0, "all_ones": full, "uniform": ("range", 0, full), "uniform_in": ("range", 0, full), "zero_in": 0}
    return {}


def _draw_value(draw, f: Field, spec):
    if isinstance(spec, int):
        return spec
    kind = spec[0]
    if kind == "range":
        return draw(st.integers(spec[1], spec[2]))
    if kind == "srange":
        return draw(st.integers(spec[1], spec[2])) & ((1 << f.bits) - 1)
    if kind == "choice":
        return draw(st.sampled_from(spec[1]))
    if kind == "f_in":
        x = draw(st.floats(min_value=spec[1], max_value=spec[2], width=32, allow_nan=False))
        return f32bits(x)
    raise AssertionError(spec)


_CLASS_CACHE: dict = {}


def field_classes(d: Definition, f: Field):
    k = (d.key, f.index)
    if k not in _CLASS_CACHE:
        _CLASS_CACHE[k] = classes_for(f)
    return _CLASS_CACHE[k]


def accepted_class_names(f: Field, classes):
    if f.type in canboat.NUMBERLIKE or f.type == "FLOAT":
        return [c for c in classes if c in IN_CLASSES]
    return [c for c in classes]


@st.composite
def payloads(draw, d: Definition, mode: str = "any", pin_match: bool = True, force=None, extra_bytes: bool = True):
    """Draw (payload_int, nbytes, classes: list[str]) for definition d.

    mode 'any'      : every class of every field
    mode 'accepted' : only in-range classes for number-like / float fields (constructed, not filtered)
    force           : {field_index: (class_name, spec)} to pin one field to a class (systematic sweep)
    """
    pos = 0
    payload = 0
    mask = 0
    classes = []
    for f in d.fields:
        if f.offset_bits is not None:
            pos = f.offset_bits
        if force and f.index in force:
            cname, spec = force[f.index]
            u = _draw_value(draw, f, spec)
            bits = f.bits
        elif f.type == "STRING_FIX":
            cname, u, bits = draw(string_fix(f))
            if mode == "benign":
                cname, u, bits = "str_empty", 0, f.bits
        elif f.type == "STRING_LAU":
            cname, u, bits = draw(string_lau(f)) if mode != "benign" else ("str_empty", 0x0102, 16)
        elif f.type == "STRING_LZ":
            cname, u, bits = draw(string_lz(f)) if mode != "benign" else ("str_empty", 0, 16)
        elif f.bits is None:
            # BINARY with a length field, or an unsupported variable field: occupies whatever follows
            if f.type == "BINARY":
                cname, bits = "binary_var", 0
                u = 0
            else:
                cname, u, bits = "variable_unsupported", 0, 0
        elif pin_match and f.match is not None:
            cname, u, bits = "match", f.match, f.bits
        elif f.match is not None and pin_match is not None:
            # perturb mode (pin_match=False): mostly the definition's own value, sometimes a one-bit neighbour or any value, so that a
            # payload sits next to the definition in match space (what a wrong mask / constant in the dispatcher would confuse)
            how = draw(st.sampled_from(["match", "match", "match", "match_bitflip", "match_bitflip", "match_foreign"]))
            bits = f.bits
            if how == "match":
                cname, u = "match", f.match
            elif how == "match_bitflip":
                cname, u = "match_bitflip", f.match ^ (1 << draw(st.integers(0, f.bits - 1)))
            else:
                cname, u = "match_foreign", draw(st.integers(0, (1 << f.bits) - 1))
        else:
            cl = field_classes(d, f)
            if mode == "benign":
                names = [c for c in ("zero_in", "range_min", "table_key", "zero") if c in cl][:1]
            elif mode == "accepted":
                names = accepted_class_names(f, cl)
            else:
                names = list(cl)
            cname = draw(st.sampled_from(names)) if len(names) > 1 else names[0]
            u = _draw_value(draw, f, cl[cname])
            bits = f.bits
        payload |= (u & ((1 << bits) - 1)) << pos
        mask |= ((1 << bits) - 1) << pos
        classes.append(cname)
        pos += bits
    end_bits = max(pos, mask.bit_length())
    nbytes = max((end_bits + 7) // 8, d.nbytes() if d.fixed_layout else 1, 1)
    if not d.fixed_layout and d.min_length:
        nbytes = max(nbytes, d.min_length)
    if extra_bytes and mode != "benign" and draw(st.integers(0, 9)) == 0:
        nbytes += draw(st.integers(1, 3))
        classes.append("extra_bytes")
    # random bits in unassigned gaps (reserved-by-omission bits must not matter)
    total = nbytes * 8
    gaps = ((1 << total) - 1) & ~mask
    if gaps and mode != "benign":
        fill = draw(st.sampled_from(["gap0", "gap1", "gaprand"]))
        if fill == "gap1":
            payload |= gaps
        elif fill == "gaprand":
            payload |= draw(st.integers(0, (1 << total) - 1)) & gaps
    return payload, nbytes, classes


def sweep_items(d: Definition):
    """All (field_index, class_name, spec) triples of a definition: the systematic sweep."""
    out = []
    for f in d.fields:
        if f.bits is None or f.type in ("STRING_FIX",):
            continue
        if f.match is not None:
            continue
        for cname, spec in field_classes(d, f).items():
            out.append((f.index, cname, spec))
    return out


def basic_string(d_pgn: int, payload: int, nbytes: int, src=1, dest=255, prio=3) -> str:
    data = payload.to_bytes(nbytes, "little")
    return "2024-01-01-00:00:00.000,%d,%d,%d,%d,%d,%s" % (prio, d_pgn, src, dest, nbytes, ",".join("%02x" % b for b in data))


# ---- a benign, encodable message per definition (used by C03/C05/C06/...) -----------------------
_BENIGN: dict = {}


def benign_payload(d: Definition):
    from hypothesis import HealthCheck, Phase, given, seed, settings
    holder = {}

    @seed(0)
    @settings(max_examples=1, database=None, deadline=None, phases=[Phase.generate], suppress_health_check=list(HealthCheck))
    @given(payloads(d, mode="benign"))
    def grab(p):
        holder.setdefault("p", p)
    grab()
    return holder["p"]


def benign_message(d: Definition):
    """Decode a benign in-range payload of d with the library; None when the library cannot decode it."""
    if d.key in _BENIGN:
        return _BENIGN[d.key]
    from nmea2000.decoder import NMEA2000Decoder
    payload, nbytes, _ = benign_payload(d)
    try:
        m = NMEA2000Decoder().decode_basic_string(basic_string(d.pgn, payload, nbytes), already_combined=True)
    except Exception:
        m = None
    if m is not None and m.id != d.id:
        m = None
    _BENIGN[d.key] = m
    return m
