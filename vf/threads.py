"""Two library calls in two threads with ONE forced preemption: call A is stopped at its k-th executed library line, call B runs to
completion in another thread, then A resumes.  Enumerating k over the lines A executes visits every interleaving with a single
context switch - the harness owns the schedule, nothing is left to the interpreter's thread switching.

Used for properties that speak about independent objects (decoders / encoders of different threads must not influence each other)."""
from __future__ import annotations

import os
import sys
import threading

from .common import REPO

_LIB = os.path.join(os.path.realpath(REPO), "nmea2000") + os.sep


def _in_lib(frame):
    fn = frame.f_code.co_filename
    return fn.startswith(_LIB) or os.path.realpath(fn).startswith(_LIB)


def count_lines(fn):
    """Number of library lines one call of fn() executes (in this thread)."""
    n = 0

    def tracer(frame, event, arg):
        nonlocal n
        if not _in_lib(frame):
            return None
        if event == "line":
            n += 1
        return tracer
    sys.settrace(tracer)
    try:
        fn()
    finally:
        sys.settrace(None)
    return n


def run_preempted(fn_a, fn_b, k):
    """-> (result or exception of fn_a, of fn_b, switched: bool).  fn_a is suspended before its k-th library line while fn_b runs."""
    res = {}
    go_b = threading.Event()
    b_done = threading.Event()
    state = {"n": 0, "switched": False}

    def tracer(frame, event, arg):
        if not _in_lib(frame):
            return None
        if event == "line":
            if state["n"] == k and not state["switched"]:
                state["switched"] = True
                go_b.set()
                b_done.wait(30)
            state["n"] += 1
        return tracer

    def thread_a():
        sys.settrace(tracer)
        try:
            res["a"] = fn_a()
        except Exception as e:          # noqa: BLE001 - reported to the caller
            res["a"] = e
        finally:
            sys.settrace(None)
            go_b.set()                  # fn_a was shorter than k lines: let B run anyway

    def thread_b():
        go_b.wait(30)
        try:
            res["b"] = fn_b()
        except Exception as e:          # noqa: BLE001
            res["b"] = e
        finally:
            b_done.set()
    ta, tb = threading.Thread(target=thread_a), threading.Thread(target=thread_b)
    ta.start()
    tb.start()
    ta.join(60)
    tb.join(60)
    return res.get("a"), res.get("b"), state["switched"]


def preemption_points(n_lines, limit):
    if n_lines <= limit:
        return list(range(n_lines))
    step = n_lines / float(limit)
    return sorted({int(i * step) for i in range(limit)} | {0, 1, n_lines - 1})


# ---- decode pass shared by C01 and C16 -------------------------------------------------------------
from . import canboat, gen, traffic  # noqa: E402

THREAD_TYPES = ("NUMBER", "DATE", "TIME", "DURATION", "LOOKUP", "FLOAT", "STRING_FIX", "STRING_LAU", "STRING_LZ", "BINARY", "MMSI", "DECIMAL",
                "INDIRECT_LOOKUP", "BITLOOKUP", "PGN", "ISO_NAME", "RESERVED", "SPARE")


def thread_definitions():
    """One supported definition per field type (the first that has it) plus a few with many fields."""
    db = canboat.db()
    out, seen = [], set()
    for t in THREAD_TYPES:
        for d in db.defs:
            if d.supported and d.key not in seen and any(f.type == t for f in d.fields):
                out.append(d)
                seen.add(d.key)
                break
    for k in ("129029/gnssPositionData", "126992/systemTime", "129038/aisClassAPositionReport"):
        if k not in seen:
            out.append(db.by_key[k])
    return out


def decode_pass(ctx, prefix, keys, n, points, mode="decode"):
    """Two decoders in two threads, one forced context switch at every library line of a decode (vf/threads.py): each call returns what it
    returns when run alone."""
    from nmea2000.decoder import NMEA2000Decoder
    db = canboat.db()
    for key in keys:
        d = db.by_key[key]

        def one(pa, pb, d=d):
            (a, na, _), (b, nb, _) = pa, pb
            if a == b:
                return []

            def call(payload, nbytes):
                if mode == "encode":
                    from nmea2000.encoder import NMEA2000Encoder
                    msg = NMEA2000Decoder().decode_basic_string(gen.basic_string(d.pgn, payload, nbytes, src=77), already_combined=True)
                    return lambda: NMEA2000Encoder().encode_actisense(msg)
                return lambda: traffic.canon(NMEA2000Decoder().decode_basic_string(gen.basic_string(d.pgn, payload, nbytes, src=77), already_combined=True))
            try:
                alone_a, alone_b = call(a, na)(), call(b, nb)()
            except Exception:
                return []
            lines = count_lines(call(a, na))
            res = []
            for k in preemption_points(lines, points):
                ra, rb, switched = run_preempted(call(a, na), call(b, nb), k)
                ctx.count()
                if switched:
                    ctx.nontrivial_extra += 1
                if ra != alone_a or rb != alone_b:
                    which = "suspended" if ra != alone_a else "other"
                    res.append((f"{prefix}|threads|{which}-call-differs", f"{d.key}: {mode}r A suspended before its library line {k} of {lines} while {mode}r B (another thread) "
                                f"{mode}s another payload: {'A' if ra != alone_a else 'B'} returns {str(ra if ra != alone_a else rb)[:300]}, alone "
                                f"{str(alone_a if ra != alone_a else alone_b)[:300]}",
                                {"threads": True, "definition": d.key, "a_hex": a.to_bytes(na, "little").hex(), "b_hex": b.to_bytes(nb, "little").hex(), "k": k, "mode": mode}))
                    break
            return res
        ctx.hyp(one, gen.payloads(d, mode="accepted", extra_bytes=False), gen.payloads(d, mode="accepted", extra_bytes=False), max_examples=n, name="threads",
                shrink=False, rounds=2)
    ctx.klass("thread_preemption_definitions", len(keys))




def decode_replay(prefix, case):
    from nmea2000.decoder import NMEA2000Decoder
    d = canboat.db().by_key[case["definition"]]
    a, b = bytes.fromhex(case["a_hex"]), bytes.fromhex(case["b_hex"])

    def call(data):
        if case.get("mode") == "encode":
            from nmea2000.encoder import NMEA2000Encoder
            msg = NMEA2000Decoder().decode_basic_string(gen.basic_string(d.pgn, int.from_bytes(data, "little"), len(data), src=77), already_combined=True)
            return lambda: NMEA2000Encoder().encode_actisense(msg)
        return lambda: traffic.canon(NMEA2000Decoder().decode_basic_string(gen.basic_string(d.pgn, int.from_bytes(data, "little"), len(data), src=77), already_combined=True))
    alone_a, alone_b = call(a)(), call(b)()
    ra, rb, _ = run_preempted(call(a), call(b), case["k"])
    if ra != alone_a or rb != alone_b:
        which = "suspended" if ra != alone_a else "other"
        return [(f"{prefix}|threads|{which}-call-differs", "a decode suspended while another thread decodes returns something else than alone", case)]
    return []
