"""Generated traffic histories: single-frame messages, interleaved fast-packet frames, ISO address claims.

A history is a list of items  {"kind": "single"|"fastframe"|"claim"|"raw", "pgn", "src", "dest", "data": bytes (CAN data), "msg": index}
rendered to the frame-level entry point by render()."""
from __future__ import annotations

from hypothesis import strategies as st

from . import canboat, gen, wire

SINGLE_KEYS = ["127250/vesselHeading", "130306/windData", "127488/engineParametersRapidUpdate", "127245/rudder", "65280/furunoHeave",
               "59904/isoRequest", "127508/batteryStatus", "130312/temperature",
               # second definitions of multi-definition PGNs (a filter naming one definition must not touch its siblings)
               "65280/0xff000xffffManufacturerProprietarySingleFrameNonAddressed", "61184/seatalkWirelessKeypadLightControl",
               "61184/0xef00ManufacturerProprietarySingleFrameAddressed", "65285/lowranceTemperature", "65285/airmarBootStateAcknowledgment"]
FAST_KEYS = ["129029/gnssPositionData", "126996/productInformation", "130816/0x1ff000x1ffffManufacturerSpecificFastPacketNonAddressed",
             "127489/engineParametersDynamic", "129540/gnssSatsInView"]
MANUFACTURERS = [(1855, "Furuno"), (1857, "Simrad"), (135, "Airmar"), (137, "Maretron"), (229, "Garmin"), (2046, None)]


# multi-definition PGNs whose sibling definitions are told apart late in the payload (byte 5 or later)
TWIN_PGNS = [130850, 126720, 130842, 65285]


def twin_ids():
    database = canboat.db()
    return sorted({d.id for p in TWIN_PGNS for d in database.by_pgn[p] if d.supported})


def iso_name(unique: int, mfg: int, inst_lo=0, inst_hi=0, func=130, dev_class=25, sys_inst=0, industry=4, aac=1) -> int:
    return (unique & 0x1FFFFF) | (mfg & 0x7FF) << 21 | (inst_lo & 7) << 32 | (inst_hi & 0x1F) << 35 | (func & 0xFF) << 40 | (dev_class & 0x7F) << 49 \
        | (sys_inst & 0xF) << 56 | (industry & 7) << 60 | (aac & 1) << 63


def name_identity(name: int):
    """Reference decoding of a 64-bit NAME into the identity attributes (model of IsoName)."""
    database = canboat.db()
    mfg = (name >> 21) & 0x7FF
    func = (name >> 40) & 0xFF
    dclass = (name >> 49) & 0x7F
    return {
        "unique_number": name & 0x1FFFFF,
        "manufacturer_code": database.lookups["MANUFACTURER_CODE"].get(mfg),
        "device_instance": (((name >> 35) & 0x1F) << 3) | ((name >> 32) & 7),
        "device_function": database.indirect["DEVICE_FUNCTION"].get((dclass, func)),
        "device_class": database.lookups["DEVICE_CLASS"].get(dclass),
        "system_instance": (name >> 56) & 0xF,
        "industry_group": database.lookups["INDUSTRY_CODE"].get((name >> 60) & 7),
        "name": name,
    }


def _claim_bounds():
    d = canboat.db().by_key["60928/isoAddressClaim"]
    return {f.id: gen.raw_bounds(f) for f in d.fields if f.type == "NUMBER"}


@st.composite
def near_name(draw, name: int):
    """A NAME that differs from `name` in ONE of its sub-fields only (the same device after re-configuration: another instance number,
    another unique number, ...)."""
    b = _claim_bounds()
    which = draw(st.sampled_from(["uniqueNumber", "deviceInstanceLower", "deviceInstanceUpper", "systemInstance", "manufacturer", "function", "aac"]))
    if which == "uniqueNumber":
        return (name & ~0x1FFFFF) | draw(st.integers(*b["uniqueNumber"]))
    if which == "deviceInstanceLower":
        return (name & ~(7 << 32)) | draw(st.integers(*b["deviceInstanceLower"])) << 32
    if which == "deviceInstanceUpper":
        return (name & ~(0x1F << 35)) | draw(st.integers(*b["deviceInstanceUpper"])) << 35
    if which == "systemInstance":
        return (name & ~(0xF << 56)) | draw(st.integers(*b["systemInstance"])) << 56
    if which == "manufacturer":
        return (name & ~(0x7FF << 21)) | draw(st.sampled_from([m for m, _ in MANUFACTURERS])) << 21
    if which == "function":
        return (name & ~(0xFF << 40)) | draw(st.sampled_from([130, 140, 150, 160, 170])) << 40
    return name ^ (1 << 63)


@st.composite
def names(draw):
    """64-bit NAMEs whose number fields lie inside the database ranges of PGN 60928 (so the claim itself is decodable)."""
    b = _claim_bounds()
    mfg = draw(st.sampled_from([m for m, _ in MANUFACTURERS]))
    return iso_name(draw(st.integers(*b["uniqueNumber"])), mfg, draw(st.integers(*b["deviceInstanceLower"])),
                    draw(st.integers(*b["deviceInstanceUpper"])), draw(st.sampled_from([130, 140, 150, 160, 170])),
                    draw(st.sampled_from([25, 30, 35, 40, 60, 75])), draw(st.integers(*b["systemInstance"])), 4, draw(st.integers(0, 1)))


def _next_seq(draw, seqs, k, repeat_seq):
    """Sequence counter of the next message of stream k: different from the previous one - unless the history is allowed to contain
    senders that restart (repeat_seq): then the previous counter may come again right after a COMPLETED message."""
    if repeat_seq and k in seqs and draw(st.integers(0, 2)) == 0:
        return seqs[k]
    return draw(st.integers(0, 7).filter(lambda x: x != seqs.get(k)))


@st.composite
def history(draw, min_msgs=4, max_msgs=14, sources=(1, 2, 3, 9), claims=True, single_keys=SINGLE_KEYS, fast_keys=FAST_KEYS, junk=False, name_pool=None, twins=False, time_passes=False, commanded=False, repeat_seq=False):
    """List of frame items with fast-packet frames of different messages interleaved."""
    database = canboat.db()
    n = draw(st.integers(min_msgs, max_msgs))
    msgs = []
    seqs = {}
    for mi in range(n):
        kinds = ["single", "single", "fast"] + (["claim"] if claims else []) + (["junk"] if junk else []) + (["twin"] if twins else []) \
            + (["warp"] if time_passes else []) + (["commanded"] if commanded and claims and any(m[0]["kind"] == "claim" for m in msgs) else [])
        kind = draw(st.sampled_from(kinds))
        src = draw(st.sampled_from(sources))
        if kind == "commanded":
            # ISO Commanded Address (PGN 65240, delivered pre-assembled): a device that has claimed - identified by its NAME - is told to
            # move to another address
            nm = draw(st.sampled_from([m[0]["name"] for m in msgs if m[0]["kind"] == "claim"]))
            msgs.append([{"kind": "combined", "pgn": 65240, "src": src, "dest": 255, "data": nm.to_bytes(8, "little") + bytes([draw(st.sampled_from(sources))]),
                          "msg": mi}])
        elif kind == "warp":
            # the bus is quiet for a while (possibly in the middle of fast-packet messages): real time passes
            msgs.append([{"kind": "warp", "pgn": 0, "src": 0, "dest": 0, "data": b"", "msg": mi, "seconds": draw(st.sampled_from([1.5, 31.0, 61.0, 700.0]))}])
        elif kind == "claim":
            nm = draw(names()) if not name_pool else draw(st.sampled_from(name_pool))
            earlier = [m[0]["name"] for m in msgs if m[0]["kind"] == "claim" and m[0]["src"] == src]
            if earlier and not name_pool and draw(st.booleans()):
                nm = draw(near_name(earlier[-1]))       # the address is claimed again by (almost) the same NAME
            msgs.append([{"kind": "claim", "pgn": 60928, "src": src, "dest": 255, "data": nm.to_bytes(8, "little"), "msg": mi, "name": nm}])
        elif kind == "single":
            d = database.by_key[draw(st.sampled_from(single_keys))]
            p, nb, _ = draw(gen.payloads(d, mode="accepted", extra_bytes=False))
            dest = 255 if ((d.pgn >> 8) & 0xFF) >= 240 else draw(st.sampled_from([255, 7] + list(sources)))
            data = p.to_bytes(nb, "little")[:8]
            if d.pgn == 59904:
                dest = draw(st.sampled_from([255, 255, 255, dest]))       # requests are mostly global
            if d.pgn == 59904 and draw(st.integers(0, 3)) > 0:
                # the requests that really occur on a bus (the library itself sends the first three to seed its network map)
                data = draw(st.sampled_from([60928, 60928, 126996, 126998, 59904, 127250])).to_bytes(3, "little")
            msgs.append([{"kind": "single", "pgn": d.pgn, "src": src, "dest": dest, "data": data, "msg": mi, "def": d.key}])
        elif kind == "twin":
            # two sibling definitions of one PGN whose payloads agree on every byte except the second one's match fields
            pgn = draw(st.sampled_from(TWIN_PGNS))
            ds = [d for d in database.by_pgn[pgn] if d.supported and d.fixed_layout and d.matches]
            d1 = draw(st.sampled_from(ds))
            d2 = draw(st.sampled_from(ds))
            p1, nb, _ = draw(gen.payloads(d1, mode="accepted", extra_bytes=False))
            p2 = p1
            for off, bits, mv, _ in d2.matches:
                p2 = (p2 & ~(((1 << bits) - 1) << off)) | (mv << off)
            nb2 = max(nb, d2.nbytes())
            for dd, pp, nn in ((d1, p1, nb), (d2, p2, nb2)):
                payload = pp.to_bytes(nn, "little")[:223]
                dest = 255 if ((pgn >> 8) & 0xFF) >= 240 else 7
                if dd.fast:
                    k = (pgn, src, dest)
                    seq = _next_seq(draw, seqs, k, repeat_seq)
                    seqs[k] = seq
                    msgs.append([{"kind": "fastframe", "pgn": pgn, "src": src, "dest": dest, "data": fr, "msg": len(msgs) + 1000 * mi, "def": dd.key, "frame": i}
                                 for i, fr in enumerate(wire.segment(payload, seq))])
                else:
                    msgs.append([{"kind": "single", "pgn": pgn, "src": src, "dest": dest, "data": payload[:8], "msg": len(msgs) + 1000 * mi, "def": dd.key}])
        elif kind == "fast":
            d = database.by_key[draw(st.sampled_from(fast_keys))]
            p, nb, _ = draw(gen.payloads(d, mode="accepted", extra_bytes=False))
            payload = p.to_bytes(nb, "little")[:223]
            dest = 255 if ((d.pgn >> 8) & 0xFF) >= 240 else draw(st.sampled_from([255, 7] + list(sources)))
            k = (d.pgn, src, dest)
            seq = _next_seq(draw, seqs, k, repeat_seq)
            seqs[k] = seq
            msgs.append([{"kind": "fastframe", "pgn": d.pgn, "src": src, "dest": dest, "data": fr, "msg": mi, "def": d.key, "frame": i}
                         for i, fr in enumerate(wire.segment(payload, seq))])
        else:
            jk = draw(st.sampled_from(["unknown_pgn", "truncated", "out_of_range", "no_definition", "no_definition_fast"]))
            if jk == "unknown_pgn":
                msgs.append([{"kind": "raw", "pgn": draw(st.sampled_from([65000, 131000, 100000])), "src": src, "dest": 255,
                              "data": draw(st.binary(min_size=8, max_size=8)), "msg": mi, "junk": jk}])
            elif jk == "no_definition":
                # a proprietary PGN without fallback definition, from a manufacturer none of its definitions names: ignored input
                pgn = draw(st.sampled_from([65285, 65286, 65287, 65293, 130817, 130821]))
                hdr = (229 | 3 << 11 | 4 << 13).to_bytes(2, "little")          # Garmin, marine industry
                msgs.append([{"kind": "raw", "pgn": pgn, "src": src, "dest": 255, "data": hdr + draw(st.binary(min_size=6, max_size=6)), "msg": mi, "junk": jk}])
            elif jk == "no_definition_fast":
                # a complete fast-packet message of a proprietary PGN without fallback, from a manufacturer no definition names
                pgn = draw(st.sampled_from([130817, 130818, 130820, 130842, 130843, 130850]))
                hdr = (229 | 3 << 11 | 4 << 13).to_bytes(2, "little")
                payload = hdr + draw(st.binary(min_size=4, max_size=14))
                k = (pgn, src, 255)
                seq = _next_seq(draw, seqs, k, repeat_seq)
                seqs[k] = seq
                msgs.append([{"kind": "fastframe", "pgn": pgn, "src": src, "dest": 255, "data": fr, "msg": mi, "junk": jk, "frame": i}
                             for i, fr in enumerate(wire.segment(payload, seq))])
            elif jk == "truncated":
                d = database.by_key[draw(st.sampled_from(single_keys + fast_keys))]
                msgs.append([{"kind": "raw", "pgn": d.pgn, "src": src, "dest": 255, "data": draw(st.binary(min_size=0, max_size=2)), "msg": mi, "junk": jk}])
            else:
                msgs.append([{"kind": "raw", "pgn": 127250, "src": src, "dest": 255, "data": bytes([1, 0xFE, 0xFF, 0, 0, 0, 0, 0xFF]), "msg": mi, "junk": jk}])
    # interleave: repeatedly pick a message that still has frames; two fast messages of the same stream are not interleaved
    out = []
    pending = [list(m) for m in msgs]
    active = []      # indices into pending that have started
    nxt = 0
    while nxt < len(pending) or active:
        choices = list(active)
        if nxt < len(pending):
            # the next message may start if no active message shares its stream key
            first = pending[nxt][0]
            key = (first["pgn"], first["src"], first["dest"])
            if first["kind"] != "fastframe" or all((pending[a][0]["pgn"], pending[a][0]["src"], pending[a][0]["dest"]) != key for a in active):
                choices.append(-1)
        if not choices:
            choices = list(active)
        c = draw(st.sampled_from(choices)) if len(choices) > 1 else choices[0]
        if c == -1:
            active.append(nxt)
            c = nxt
            nxt += 1
        out.append(pending[c].pop(0))
        if not pending[c]:
            active.remove(c)
    return out


def render(item, fmt="ebyte"):
    i = wire.ident(item["pgn"], item["src"], item["dest"], item.get("prio", 3))
    if fmt == "ebyte":
        return wire.ebyte(i, item["data"])
    if fmt == "usb":
        return wire.usb(i, item["data"])
    return wire.yd(i, item["data"])


def feed(dec, item, fmt="ebyte"):
    if item["kind"] == "warp":
        from .common import CLOCK
        CLOCK.warp(item["seconds"])
        return None
    if item["kind"] == "combined":
        d = item["data"]
        return dec.decode_basic_string("2024-01-01-00:00:00.000,%d,%d,%d,%d,%d,%s" % (item.get("prio", 3), item["pgn"], item["src"], item["dest"], len(d),
                                                                                    ",".join("%02x" % b for b in d)), already_combined=True)
    pk = render(item, fmt)
    if fmt == "ebyte":
        return dec.decode_tcp(pk)
    if fmt == "usb":
        return dec.decode_usb(pk)
    return dec.decode_yacht_devices_string(pk)


def canon(m, with_identity=True):
    if m is None:
        return None
    t = (m.id, m.PGN, m.source, m.destination, m.priority, tuple((f.id, repr(f.value), repr(f.raw_value), f.unit_of_measurement) for f in m.fields))
    if with_identity:
        t += (repr(m.source_iso_name), m.hash)
    return t


def item_json(item):
    d = dict(item)
    d["data"] = item["data"].hex()
    return d


def item_from_json(d):
    d = dict(d)
    d["data"] = bytes.fromhex(d["data"])
    return d
