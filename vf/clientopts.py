"""Options handed to a gateway client must reach its decoder unchanged and its decoder must live as long as the client: a client built
with options O delivers exactly what a bare decoder built with O returns for the same packets - also across a reconnection.
Shared by the checks of the properties that are stated on the decoder but used through clients (C10, C11, C12, C15, C17, C18)."""
from __future__ import annotations

from . import aio, canboat, gen, traffic


def message(key, src=1, dest=255, prio=3, payload=None):
    d = canboat.db().by_key[key]
    if payload is None:
        p, n, _ = gen.benign_payload(d)
        payload = p.to_bytes(n, "little")
    if ((d.pgn >> 8) & 0xFF) >= 240:
        dest = 255
    return {"pgn": d.pgn, "src": src, "dest": dest, "prio": prio, "payload": payload}


def claim(src, unique, mfg=137):
    return {"pgn": 60928, "src": src, "dest": 255, "prio": 6, "payload": traffic.iso_name(unique, mfg).to_bytes(8, "little")}


CONVERTIBLE = ["127250/vesselHeading", "130306/windData", "130312/temperature", "130314/actualPressure", "127245/rudder", "128259/speed",
               "129026/cogSogRapidUpdate", "130316/temperatureExtendedRange"]
KEYED = ["127505/fluidLevel", "127508/batteryStatus", "127488/engineParametersRapidUpdate", "130312/temperature", "127501/binarySwitchBankStatus"]
FAST = ["129029/gnssPositionData", "127489/engineParametersDynamic", "128275/distanceLog"]


def standard_traffic(keys, sources=(1, 2), claims=True, mfgs=(137, 1855)):
    db = canboat.db()
    msgs = []
    if claims:
        msgs += [claim(s, 100 + s, mfgs[i % len(mfgs)]) for i, s in enumerate(sources)]
    for i, k in enumerate(k for k in keys if k in db.by_key):
        msgs.append(message(k, src=sources[i % len(sources)]))
    return msgs


def run(ctx, prefix, option_sets, msgs, kinds=aio.CLIENT_KINDS, reconnects=((), ), extra_case=None):
    """option_sets: list of (label, factory); reports '<prefix>|client-<kind>|<aspect>' for every difference."""
    n = 0
    for kind in kinds:
        for label, factory in option_sets:
            for rc in reconnects:
                ctx.count()
                ctx.nontrivial_extra += 1
                n += 1
                diffs = aio.passthrough_diff(kind, msgs, factory, reconnect_before=rc)
                ctx.klass("client_passthrough_messages_delivered", getattr(aio.passthrough_diff, "last_delivered", 0))
                for aspect, text in diffs:
                    ctx.report(f"{prefix}|client-{kind}|{aspect}" + ("|after-reconnect" if rc else ""),
                               f"{kind} client built with {label}" + (f", link dropped and re-established before message {list(rc)}" if rc else "") + f": {text}",
                               dict(extra_case or {}, clientopts=True, kind=kind, options=label, reconnect=list(rc)))
    ctx.klass("client_passthrough_cases", n)


def replay(pid, fn, case):
    """Re-run a property's client pass (fn(ctx)) and return what it reports for the stored client kind / option label."""
    from .common import Ctx
    sub = Ctx(pid)
    sub.known_open = {}
    fn(sub)
    return [(b, i["what"], i["case"]) for b, i in sub.found.items()
            if i["case"].get("kind") == case.get("kind") and i["case"].get("options") == case.get("options")]
