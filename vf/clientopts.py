"""Options handed to a gateway client must reach its decoder unchanged and its decoder must live as long as the client: a client built
with options O delivers exactly what a bare decoder built with O returns for the same packets - also across a reconnection.
Shared by the checks of the properties that are stated on the decoder but used through clients (C10, C11, C12, C15, C17, C18)."""
from __future__ import annotations

from . import aio, canboat, gen, traffic


def message(key, src=1, dest=255, prio=3, payload=None):
    d = canboat.db().by_key[key]
    if payload is None:
        p, n, _ = gen.benign_payload(d)
        payload = p.to_bytes(n, "little")
    if ((d.pgn >> 8) & 0xFF) >= 240:
        dest = 255
    return {"pgn": d.pgn, "src": src, "dest": dest, "prio": prio, "payload": payload}


def claim(src, unique, mfg=137):
    return {"pgn": 60928, "src": src, "dest": 255, "prio": 6, "payload": traffic.iso_name(unique, mfg).to_bytes(8, "little")}


CONVERTIBLE = ["127250/vesselHeading", "130306/windData", "130312/temperature", "130314/actualPressure", "127245/rudder", "128259/speed",
               "129026/cogSogRapidUpdate", "130316/temperatureExtendedRange"]
KEYED = ["127505/fluidLevel", "127508/batteryStatus", "127488/engineParametersRapidUpdate", "130312/temperature", "127501/binarySwitchBankStatus"]
FAST = ["129029/gnssPositionData", "127489/engineParametersDynamic", "128275/distanceLog"]


def standard_traffic(keys, sources=(1, 2), claims=True, mfgs=(137, 1855)):
    db = canboat.db()
    msgs = []
    if claims:
        msgs += [claim(s, 100 + s, mfgs[i % len(mfgs)]) for i, s in enumerate(sources)]
    for i, k in enumerate(k for k in keys if k in db.by_key):
        msgs.append(message(k, src=sources[i % len(sources)]))
    return msgs


def run(ctx, prefix, option_sets, msgs, kinds=aio.CLIENT_KINDS, reconnects=((), ), extra_case=None):
    """option_sets: list of (label, factory); reports '<prefix>|client-<kind>|<aspect>' for every difference."""
    n = 0
    for kind in kinds:
        for label, factory in option_sets:
            for rc in reconnects:
                ctx.count()
                ctx.nontrivial_extra += 1
                n += 1
                diffs = aio.passthrough_diff(kind, msgs, factory, reconnect_before=rc)
                ctx.klass("client_passthrough_messages_delivered", getattr(aio.passthrough_diff, "last_delivered", 0))
                for aspect, text in diffs:
                    ctx.report(f"{prefix}|client-{kind}|{aspect}" + ("|after-reconnect" if rc else ""),
                               f"{kind} client built with {label}" + (f", link dropped and re-established before message {list(rc)}" if rc else "") + f": {text}",
                               dict(extra_case or {}, clientopts=True, kind=kind, options=label, reconnect=list(rc)))
    ctx.klass("client_passthrough_cases", n)


def replay(pid, fn, case):
    """Re-run a property's client pass (fn(ctx)) and return what it reports for the stored client kind / option label."""
    from .common import Ctx
    sub = Ctx(pid)
    sub.known_open = {}
    fn(sub)
    return [(b, i["what"], i["case"]) for b, i in sub.found.items()
            if i["case"].get("kind") == case.get("kind") and i["case"].get("options") == case.get("options")]


def dual_pass(ctx, prefix, kind, variants=((7, 11), (1, 3), (19, 23), (13, 20), (64, 5))):
    """Two clients of one kind in one process, each on its own link, reads interleaved and not aligned with packet boundaries: each
    delivers exactly what a decoder returns for its own stream."""
    keys = CONVERTIBLE + FAST + KEYED
    for pa, pb in variants:
        ma = standard_traffic(keys, sources=(1,), claims=False)
        mb = standard_traffic(list(reversed(keys)), sources=(2,), claims=False)
        ca, cb = aio.render_messages(kind, ma), aio.render_messages(kind, mb)
        got_a, got_b, s = aio.dual_client_delivery(kind, b"".join(ca), b"".join(cb), pa, pb)
        ctx.count()
        ctx.nontrivial_extra += 1
        ctx.klass("two_clients_in_one_process")
        case = {"dual": True, "client": kind, "pieces": [pa, pb]}
        if s.outcome != "ok":
            ctx.report(f"{prefix}|{kind}|two-clients|{s.outcome}", f"session ended with {s.outcome}: {s.errors[:1]}", case)
            continue
        if s.bad_deliveries:
            ctx.report(f"{prefix}|{kind}|two-clients|not-a-message", f"the receive callback was called with something that is not a message: {s.bad_deliveries[0][1]}", case)
            continue
        for name, got, chunks in (("first", got_a, ca), ("second", got_b, cb)):
            exp, _ = aio.bare_decoder_delivery(kind, chunks)
            if [traffic.canon(m) for m in got] != [traffic.canon(m) for m in exp]:
                ctx.report(f"{prefix}|{kind}|two-clients|delivery", f"two {kind} clients in one process (reads of {pa} / {pb} bytes alternating): the {name} client delivered "
                           f"{len(got)} messages {[m.id for m in got][:6]}, a decoder returns {len(exp)} for its stream", case)


def dual_replay(pid, prefix, case):
    from .common import Ctx
    sub = Ctx(pid)
    sub.known_open = {}
    dual_pass(sub, prefix, case["client"])
    return [(b, v["what"], v["case"]) for b, v in sub.found.items()]


def boundary_frames(kinds=("single",), per_field=3):
    """Single-frame CAN data for every (definition, field, boundary class): the systematic sweep of the codec checks, as frames.
    -> list of (definition key, field id, class, pgn, data bytes)"""
    db = canboat.db()
    out = []
    for d in db.defs:
        if not d.supported or d.fast or d.ptype != "Single":
            continue
        bp, bn, _ = gen.benign_payload(d)
        if bn > 8:
            continue
        pos = {e.field.index: e.pos for e in canboat.ref_decode(d, bp, bn)[0]}
        for fi, cname, spec in gen.sweep_items(d):
            f = d.fields[fi]
            if fi not in pos:
                continue
            values = [spec] if isinstance(spec, int) else list(spec[1])[:per_field] if spec[0] == "choice" else []
            if f.type == "BITLOOKUP":
                values += [1 << b for b in range(f.bits)] + [(1 << f.bits) - 1, (1 << f.bits) - 2]
            m = ((1 << f.bits) - 1) << pos[fi]
            for v in values:
                p = (bp & ~m) | ((v & ((1 << f.bits) - 1)) << pos[fi])
                out.append((d.key, f.id, cname, d.pgn, p.to_bytes(max(bn, (pos[fi] + f.bits + 7) // 8), "little")[:8]))
    return out


def sweep_through_client(ctx, prefix, kind, part, parts, compare=True):
    """Every boundary frame through one client of `kind`: the client keeps running (no hang, no lost heartbeat) and - if compare - delivers
    exactly what a bare decoder returns."""
    from . import wire
    frames = boundary_frames()[part::parts]
    msgs = [{"pgn": pgn, "src": 1 + i % 250, "dest": 255, "prio": 3, "payload": data} for i, (_, _, _, pgn, data) in enumerate(frames)]
    chunks = []
    for m in msgs:
        i = wire.ident(m["pgn"], m["src"], m["dest"], 3)
        if kind == "ebyte":
            chunks.append(wire.ebyte(i, m["payload"]))
        elif kind == "waveshare":
            chunks.append(wire.usb(i, m["payload"]))
        elif kind == "yd":
            chunks.append((wire.yd(i, m["payload"]) + "\r\n").encode())
        else:
            chunks.append((wire.actisense(m["pgn"], m["src"], m["dest"], 3, m["payload"]) + "\r\n").encode())
    got, s = aio.client_passthrough(kind, chunks, {})
    ctx.count(len(chunks))
    ctx.nontrivial_extra += len(chunks)
    ctx.klass("boundary_frames_through_client", len(chunks))
    case = {"sweep_client": kind, "part": part, "parts": parts}
    if s.outcome != "ok":
        ctx.report(f"{prefix}|{kind}|boundary-frames|{s.outcome}", f"feeding {len(chunks)} boundary frames: session ended with {s.outcome}: {s.errors[:1]} "
                   f"({len(got)} messages had been delivered)", case)
        return
    if s.bad_deliveries:
        ctx.report(f"{prefix}|{kind}|boundary-frames|not-a-message", f"the receive callback was called {len(s.bad_deliveries)} time(s) with something that is not a message "
                   f"({s.bad_deliveries[0][1]})", case)
    if s.heartbeats < 0.9 * (s.elapsed / 0.1) - 2:
        ctx.report(f"{prefix}|{kind}|boundary-frames|heartbeat-starved", f"{s.heartbeats} heartbeats in {s.elapsed:.1f} virtual s", case)
    if compare:
        exp, _ = aio.bare_decoder_delivery(kind, chunks, {})
        a, b = [traffic.canon(m) for m in got], [traffic.canon(m) for m in exp]
        if a != b:
            k = next((i for i, (x, y) in enumerate(zip(a, b)) if x != y), min(len(a), len(b)))
            ctx.report(f"{prefix}|{kind}|boundary-frames|delivery", f"client delivered {len(a)} messages, a decoder returns {len(b)}; first difference at message {k}", case)
