"""Options handed to a gateway client must reach its decoder unchanged and its decoder must live as long as the client: a client built
with options O delivers exactly what a bare decoder built with O returns for the same packets - also across a reconnection.
Shared by the checks of the properties that are stated on the decoder but used through clients (C10, C11, C12, C15, C17, C18)."""
from __future__ import annotations

from . import aio, canboat, gen, traffic


def message(key, src=1, dest=255, prio=3, payload=None):
    d = canboat.db().by_key[key]
    if payload is None:
        p, n, _ = gen.benign_payload(d)
        payload = p.to_bytes(n, "little")
    if ((d.pgn >> 8) & 0xFF) >= 240:
        dest = 255
    return {"pgn": d.pgn, "src": src, "dest": dest, "prio": prio, "payload": payload}


def claim(src, unique, mfg=137):
    return {"pgn": 60928, "src": src, "dest": 255, "prio": 6, "payload": traffic.iso_name(unique, mfg).to_bytes(8, "little")}


CONVERTIBLE = ["127250/vesselHeading", "130306/windData", "130312/temperature", "130314/actualPressure", "127245/rudder", "128259/speed",
               "129026/cogSogRapidUpdate", "130316/temperatureExtendedRange"]
KEYED = ["127505/fluidLevel", "127508/batteryStatus", "127488/engineParametersRapidUpdate", "130312/temperature", "127501/binarySwitchBankStatus"]
FAST = ["129029/gnssPositionData", "127489/engineParametersDynamic", "128275/distanceLog"]


def standard_traffic(keys, sources=(1, 2), claims=True, mfgs=(137, 1855)):
    db = canboat.db()
    msgs = []
    if claims:
        msgs += [claim(s, 100 + s, mfgs[i % len(mfgs)]) for i, s in enumerate(sources)]
    for i, k in enumerate(k for k in keys if k in db.by_key):
        msgs.append(message(k, src=sources[i % len(sources)]))
    return msgs


def run(ctx, prefix, option_sets, msgs, kinds=aio.CLIENT_KINDS, reconnects=((), ), extra_case=None):
    """option_sets: list of (label, factory); reports '<prefix>|client-<kind>|<aspect>' for every difference."""
    n = 0
    for kind in kinds:
        for label, factory in option_sets:
            for rc in reconnects:
                ctx.count()
                ctx.nontrivial_extra += 1
                n += 1
                diffs = aio.passthrough_diff(kind, msgs, factory, reconnect_before=rc)
                ctx.klass("client_passthrough_messages_delivered", getattr(aio.passthrough_diff, "last_delivered", 0))
                for aspect, text in diffs:
                    ctx.report(f"{prefix}|client-{kind}|{aspect}" + ("|after-reconnect" if rc else ""),
                               f"{kind} client built with {label}" + (f", link dropped and re-established before message {list(rc)}" if rc else "") + f": {text}",
                               dict(extra_case or {}, clientopts=True, kind=kind, options=label, reconnect=list(rc)))
    ctx.klass("client_passthrough_cases", n)


def replay(pid, fn, case):
    """Re-run a property's client pass (fn(ctx)) and return what it reports for the stored client kind / option label."""
    from .common import Ctx
    sub = Ctx(pid)
    sub.known_open = {}
    fn(sub)
    return [(b, i["what"], i["case"]) for b, i in sub.found.items()
            if i["case"].get("kind") == case.get("kind") and i["case"].get("options") == case.get("options")]


def dual_pass(ctx, prefix, kind, variants=((7, 11), (1, 3), (19, 23), (13, 20), (64, 5))):
    """Two clients of one kind in one process, each on its own link, reads interleaved and not aligned with packet boundaries: each
    delivers exactly what a decoder returns for its own stream."""
    keys = CONVERTIBLE + FAST + KEYED
    for pa, pb in variants:
        ma = standard_traffic(keys, sources=(1,), claims=False)
        mb = standard_traffic(list(reversed(keys)), sources=(2,), claims=False)
        ca, cb = aio.render_messages(kind, ma), aio.render_messages(kind, mb)
        got_a, got_b, s = aio.dual_client_delivery(kind, b"".join(ca), b"".join(cb), pa, pb)
        ctx.count()
        ctx.nontrivial_extra += 1
        ctx.klass("two_clients_in_one_process")
        case = {"dual": True, "client": kind, "pieces": [pa, pb]}
        if s.outcome != "ok":
            ctx.report(f"{prefix}|{kind}|two-clients|{s.outcome}", f"session ended with {s.outcome}: {s.errors[:1]}", case)
            continue
        for name, got, chunks in (("first", got_a, ca), ("second", got_b, cb)):
            exp, _ = aio.bare_decoder_delivery(kind, chunks)
            if [traffic.canon(m) for m in got] != [traffic.canon(m) for m in exp]:
                ctx.report(f"{prefix}|{kind}|two-clients|delivery", f"two {kind} clients in one process (reads of {pa} / {pb} bytes alternating): the {name} client delivered "
                           f"{len(got)} messages {[m.id for m in got][:6]}, a decoder returns {len(exp)} for its stream", case)


def dual_replay(pid, prefix, case):
    from .common import Ctx
    sub = Ctx(pid)
    sub.known_open = {}
    dual_pass(sub, prefix, case["client"])
    return [(b, v["what"], v["case"]) for b, v in sub.found.items()]
