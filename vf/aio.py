"""Asynchronous harness: the harness owns clock, transport and schedule (DESIGN.md 2.5).

* VLoop           asyncio selector loop on a virtual clock: select(timeout) never blocks, it advances the clock.
* MemTransport    in-memory transport under asyncio's REAL StreamReader / StreamReaderProtocol / StreamWriter.
* Gateway         scripted peer: connect plan (refuse / fail / delay / accept), per-link feed / eof / reset / write faults /
                  flow control; records attempts (virtual time), bytes written, opened / closed links.
* Session         runs one case in a fresh loop with monitors evaluated at every loop step.

The unmodified clients of nmea2000.ioclient run on top; asyncio.open_connection and
serial_asyncio.open_serial_connection are substituted in the harness process only.
"""
from __future__ import annotations

import asyncio
import os
import selectors

# ---------------------------------------------------------------------------------------------------
# virtual clock loop
# ---------------------------------------------------------------------------------------------------


class SpinDetected(BaseException):
    """A reader returned > SPIN_LIMIT times inside one loop step: the event loop is being monopolised."""


class StepLimit(BaseException):
    pass


SPIN_LIMIT = 1000


class VSelector:
    def __init__(self):
        self._real = selectors.DefaultSelector()
        self.loop = None

    def select(self, timeout=None):
        ev = self._real.select(0)
        if not ev and timeout:
            self.loop._vtime += timeout
        elif not ev and timeout is None:
            self.loop._idle_selects += 1
            if self.loop._idle_selects > 3:
                raise StepLimit("event loop has nothing left to do")
        return ev

    def register(self, *a, **k):
        return self._real.register(*a, **k)

    def unregister(self, *a, **k):
        return self._real.unregister(*a, **k)

    def modify(self, *a, **k):
        return self._real.modify(*a, **k)

    def get_key(self, *a, **k):
        return self._real.get_key(*a, **k)

    def get_map(self):
        return self._real.get_map()

    def close(self):
        self._real.close()


class VLoop(asyncio.SelectorEventLoop):
    def __init__(self):
        sel = VSelector()
        self._vtime = 1000.0
        self._idle_selects = 0
        self.steps = 0
        self.step_hooks = []
        self.max_steps = 2_000_000
        super().__init__(selector=sel)
        sel.loop = self

    def time(self):
        return self._vtime

    def _run_once(self):
        self.steps += 1
        if self.steps > self.max_steps:
            raise StepLimit(f"more than {self.max_steps} loop steps")
        for h in self.step_hooks:
            h(self)
        super()._run_once()


# ---------------------------------------------------------------------------------------------------
# transport / reader
# ---------------------------------------------------------------------------------------------------
class MonReader(asyncio.StreamReader):
    """StreamReader that counts reads in flight and returns per loop step."""

    def __init__(self, session, **kw):
        super().__init__(**kw)
        self._s = session

    async def _mon(self, coro):
        s = self._s
        s.reads_in_flight += 1
        s.max_reads_in_flight = max(s.max_reads_in_flight, s.reads_in_flight)
        try:
            return await coro
        finally:
            s.reads_in_flight -= 1
            step = s.loop.steps
            if s.read_return_step == step:
                s.read_returns_this_step += 1
                if s.read_returns_this_step > SPIN_LIMIT:
                    s.spin_detected = True
                    raise SpinDetected(f"reader returned {s.read_returns_this_step} times within loop step {step}")
            else:
                s.read_return_step = step
                s.read_returns_this_step = 1

    def read(self, n=-1):
        return self._mon(super().read(n))

    def readexactly(self, n):
        return self._mon(super().readexactly(n))

    def readline(self):
        return self._mon(super().readline())


class MemTransport(asyncio.Transport):
    def __init__(self, loop, protocol, link):
        super().__init__()
        self._loop = loop
        self._protocol = protocol
        self.link = link
        self._closing = False
        self._paused_reading = False

    # --- write side -----------------------------------------------------------------------------
    def write(self, data):
        self.link.on_write(bytes(data))

    def writelines(self, lines):
        for l in lines:
            self.write(l)

    def can_write_eof(self):
        return True

    def write_eof(self):
        pass

    def get_write_buffer_size(self):
        return 0

    def get_write_buffer_limits(self):
        return (0, 65536)

    def set_write_buffer_limits(self, high=None, low=None):
        pass

    def abort(self):
        self.close()

    def close(self):
        if self._closing:
            return
        self._closing = True
        self.link.closed_by_client = True
        self.link.closed_at = self._loop.time()
        self._loop.call_soon(self._call_lost, None)

    def _call_lost(self, exc):
        if not self.link.lost_called:
            self.link.lost_called = True
            self._protocol.connection_lost(exc)

    def is_closing(self):
        return self._closing

    # --- read side ------------------------------------------------------------------------------
    def pause_reading(self):
        self._paused_reading = True

    def resume_reading(self):
        self._paused_reading = False
        self.link.flush()

    def is_reading(self):
        return not self._paused_reading and not self._closing

    def get_extra_info(self, name, default=None):
        return default

    def get_protocol(self):
        return self._protocol

    def set_protocol(self, protocol):
        self._protocol = protocol


class Link:
    """One established connection, seen from the gateway."""

    def __init__(self, gw, index):
        self.gw = gw
        self.index = index
        self.loop = gw.session.loop
        self.written = []            # list of (virtual time, loop step, bytes) per write() call
        self.closed_by_client = False
        self.closed_at = None
        self.lost_called = False
        self.dead = False            # peer side gone (eof / reset / write failure)
        self.pending = []
        self.transport = None
        self.protocol = None
        self.reader = None
        self.write_count = 0
        self.opened_at = self.loop.time()
        self.up_step = self.loop.steps
        self.line_filter = None      # serial line discipline asked for by the client (see Gateway.open)

    # peer -> client
    def feed(self, data: bytes):
        if self.dead or self.transport.is_closing():
            return
        data = bytes(data)
        if self.line_filter is not None:
            data = self.line_filter(data)
            if not data:
                return
        self.pending.append(data)
        self.flush()

    def flush(self):
        while self.pending and not self.transport._paused_reading and not self.transport.is_closing():
            self.protocol.data_received(self.pending.pop(0))

    def eof(self):
        if self.dead or self.transport.is_closing():
            return
        self.flush()
        self.dead = True
        keep = self.protocol.eof_received()
        if not keep:
            self.transport.close()

    def reset(self, exc=None):
        if self.dead or self.transport.is_closing():
            return
        self.dead = True
        self.transport._closing = True
        self.loop.call_soon(self.transport._call_lost, exc or ConnectionResetError("connection reset by peer"))

    # client -> peer
    def on_write(self, data: bytes):
        self.write_count += 1
        gw = self.gw
        gw.total_writes += 1
        if self.transport.is_closing() or self.dead and gw.fail_writes_after_death:
            # asyncio transports drop writes on a closing connection (with a warning); record them separately
            self.gw.writes_after_close.append((self.loop.time(), data))
            return
        self.written.append((self.loop.time(), self.loop.steps, data))
        act = gw.write_actions.get(gw.total_writes)
        if act:
            kind = act[0]
            if kind == "fail":
                self.dead = True
                self.transport._closing = True
                self.loop.call_soon(self.transport._call_lost, act[1] if len(act) > 1 else ConnectionResetError("write failed"))
            elif kind == "pause_eof":
                # back-pressure AND the peer closes its sending side while the client is waiting in drain()
                self.resume_step = max(getattr(self, "resume_step", 0), self.loop.steps + act[1])
                if not getattr(self, "paused", False):
                    self.paused = True
                    self.protocol.pause_writing()
                gw.session.at_step(self.resume_step, self._resume)
                self.loop.call_soon(self.eof)
            elif kind == "pause":
                # transport buffer above high water: the stream protocol is told to pause (once, like a real transport does
                # when the mark is crossed); it is resumed `steps` loop steps after the last pause request
                self.resume_step = max(getattr(self, "resume_step", 0), self.loop.steps + act[1])
                if not getattr(self, "paused", False):
                    self.paused = True
                    self.protocol.pause_writing()
                gw.session.at_step(self.resume_step, self._resume)

    def _resume(self):
        if getattr(self, "paused", False) and self.loop.steps >= self.resume_step:
            self.paused = False
            if not self.lost_called:
                self.protocol.resume_writing()

    def bytes_written(self) -> bytes:
        return b"".join(d for _, _, d in self.written)


class Gateway:
    """Scripted gateway.  connect_plan: list of actions consumed per connection attempt, the last one repeats:
         ("accept",) | ("accept", delay) | ("refuse",) | ("refuse", delay) | ("error", exc) | ("hang",)"""

    def __init__(self, session, connect_plan=(("accept",),)):
        self.session = session
        self.plan = list(connect_plan)
        self.attempts = []           # virtual times of connection attempts (initiation)
        self.attempt_ends = []       # virtual time at which each attempt was answered (refused / failed / accepted)
        self.attempt_steps = []
        self.links = []
        self.write_actions = {}      # global write index (1-based) -> ("fail", exc) | ("pause", steps)
        self.total_writes = 0
        self.writes_after_close = []
        self.fail_writes_after_death = False
        self.on_link = None          # callback(link) when a connection is established

    def _next(self):
        if len(self.plan) > 1:
            return self.plan.pop(0)
        return self.plan[0]

    async def open(self, *args, **kw):
        loop = self.session.loop
        self.attempts.append(loop.time())
        self.attempt_steps.append(loop.steps)
        act = self._next()
        kind = act[0]
        delay = act[1] if len(act) > 1 and isinstance(act[1], (int, float)) else 0
        if kind == "hang":
            await asyncio.sleep(10 ** 9)
        if delay:
            await asyncio.sleep(delay)
        self.attempt_ends.append(loop.time())
        if kind == "refuse":
            raise ConnectionRefusedError(111, "Connect call failed (simulated)")
        if kind == "error":
            raise act[1] if len(act) > 1 and isinstance(act[1], BaseException) else OSError("simulated connect failure")
        link = Link(self, len(self.links))
        self.open_kwargs = dict(kw)
        if "baudrate" in kw or "url" in kw:
            # a serial port: what the operating system does to the byte stream depends on the options the client asked for.
            #  - software flow control (xonxoff=True): received XON / XOFF bytes (0x11 / 0x13) are consumed by the tty layer
            #  - fewer than 8 data bits: the high bits never arrive
            filters = []
            if kw.get("xonxoff"):
                filters.append(lambda b: bytes(x for x in b if x not in (0x11, 0x13)))
            bits = kw.get("bytesize", 8)
            if isinstance(bits, int) and bits < 8:
                filters.append(lambda b, m=(1 << bits) - 1: bytes(x & m for x in b))
            if filters:
                def line_filter(b, filters=filters):
                    for f in filters:
                        b = f(b)
                    return b
                link.line_filter = line_filter
        reader = MonReader(self.session, limit=2 ** 16, loop=loop)
        protocol = asyncio.StreamReaderProtocol(reader, loop=loop)
        transport = MemTransport(loop, protocol, link)
        link.transport, link.protocol, link.reader = transport, protocol, reader
        protocol.connection_made(transport)
        writer = asyncio.StreamWriter(transport, protocol, reader, loop)
        self.links.append(link)
        if self.on_link:
            self.on_link(link)
        return reader, writer

    @property
    def link(self):
        return self.links[-1] if self.links else None


# ---------------------------------------------------------------------------------------------------
# session
# ---------------------------------------------------------------------------------------------------
CLIENT_KINDS = ("ebyte", "actisense", "yd", "waveshare")


class Session:
    def __init__(self, kind: str, connect_plan=(("accept",),), client_kwargs=None):
        self.kind = kind
        self.loop = VLoop()
        self.gw = Gateway(self, connect_plan)
        self.client_kwargs = dict(client_kwargs or {})
        self.client = None
        self.companions = []
        self.bad_deliveries = []         # receive callback invoked with something that is not a message
        self.reads_in_flight = 0
        self.max_reads_in_flight = 0
        self.read_return_step = -1
        self.read_returns_this_step = 0
        self.spin_detected = False
        self.states = []                 # (step, vtime, state) whenever the polled state changes
        self.status_trace = []           # (vtime, state) from the status callback
        self.received = []               # (vtime, message) from the receive callback (recorded at callback entry)
        self.heartbeats = 0
        self._step_actions = {}
        self.task_errors = []
        self.status_mode = "plain"       # plain | raise | slow
        self.callback_exits = []         # (virtual time, loop step, index) at which each receive callback invocation ended
        self.receive_behaviour = None    # callable(index) -> None | "raise" | float seconds
        self.errors = []
        self.loop.step_hooks.append(self._on_step)
        self._last_state = None
        self.close_entered_step = None
        self.state_after_close = []

    # ---- scheduling --------------------------------------------------------------------------------
    def at_step(self, step, fn):
        self._step_actions.setdefault(step, []).append(fn)

    def at_time(self, t, fn):
        self.loop.call_at(self.loop.time() + t if t < 1000 else t, fn)

    def _on_step(self, loop):
        c = self.client
        if c is not None:
            st_ = c.state
            if st_ != self._last_state:
                self._last_state = st_
                self.states.append((loop.steps, loop.time(), st_.name))
            if self.close_entered_step is not None and st_.name != "CLOSED":
                self.state_after_close.append((loop.steps, st_.name))
        acts = self._step_actions.pop(loop.steps, None)
        if acts:
            for fn in acts:
                fn()

    # ---- a second client of the same process ------------------------------------------------------
    def add_companion(self, kind=None, connect_plan=(("accept",),), client_kwargs=None):
        """A second, independent client (own gateway, own callbacks) living in the same process and event loop.
        -> Companion with .client, .gw, .received, .status_trace"""
        comp = Companion(self, kind or self.kind, connect_plan, client_kwargs)
        self.companions.append(comp)
        return comp

    async def _open(self, *args, **kw):
        target = " ".join(str(a) for a in args) + " " + " ".join(str(v) for v in kw.values())
        for comp in self.companions:
            if comp.address in target:
                return await comp.gw.open(*args, **kw)
        return await self.gw.open(*args, **kw)

    # ---- client ------------------------------------------------------------------------------------
    def make_client(self):
        import nmea2000.ioclient as io
        kw = self.client_kwargs
        if self.kind == "ebyte":
            c = io.EByteNmea2000Gateway("gw", 1, **kw)
        elif self.kind == "actisense":
            c = io.ActisenseNmea2000Gateway("gw", 1, **kw)
        elif self.kind == "yd":
            c = io.YachtDevicesNmea2000Gateway("gw", 1, **kw)
        else:
            c = io.WaveShareNmea2000Gateway("/dev/ttyV0", **kw)
        self.client = c

        async def on_status(state):
            self.status_trace.append((self.loop.time(), state.name))
            if self.status_mode == "raise":
                # applications fail in many ways: with a message, without any argument, with an assertion, with a lookup error
                self._raised = getattr(self, "_raised", 0) + 1
                raise injected_failure(self._raised, "status callback failure (injected)")
            if self.status_mode == "slow":
                await asyncio.sleep(0.3)
            if self.status_mode == "slow_connected" and state.name == "CONNECTED":
                await asyncio.sleep(0.5)       # an application that does real work when the link comes up

        async def on_receive(msg):
            if msg is None or not hasattr(msg, "PGN"):
                # the receive callback is for messages: being called with anything else is recorded, not delivered
                self.bad_deliveries.append((self.loop.time(), repr(msg)[:60]))
                return
            i = len(self.received)
            self.received.append((self.loop.time(), msg))
            b = self.receive_behaviour(i) if self.receive_behaviour else None
            try:
                if b == "raise":
                    raise injected_failure(i, "receive callback failure (injected)")
                if b == "nested":
                    # an application that fans the message out to sub-tasks and waits for them (a cancellation of the callback takes a
                    # few loop iterations - no time - to travel down to the sub-tasks and back)
                    async def leaf():
                        await asyncio.sleep(1.5)

                    async def mid():
                        await asyncio.gather(leaf(), leaf())
                    await asyncio.gather(mid(), mid())
                if isinstance(b, (int, float)) and b > 0:
                    await asyncio.sleep(b)
            finally:
                self.callback_exits.append((self.loop.time(), self.loop.steps, i))

        if self.status_mode != "none":
            c.set_status_callback(on_status)        # ("none": the application does not register a status callback at all)
        c.set_receive_callback(on_receive)
        return c

    async def _heartbeat(self):
        while True:
            await asyncio.sleep(0.1)
            self.heartbeats += 1

    # ---- run -----------------------------------------------------------------------------------------
    def run(self, main, max_steps=400_000):
        """Run `await main(session)` to completion inside the patched environment; always tears the loop down."""
        import nmea2000.ioclient as io
        loop = self.loop
        loop.max_steps = max_steps
        saved_open = asyncio.open_connection
        saved_serial = io.serial_asyncio.open_serial_connection
        asyncio.open_connection = self._open
        io.serial_asyncio.open_serial_connection = self._open
        asyncio.set_event_loop(loop)
        loop.set_exception_handler(lambda l, ctx: self.task_errors.append(str(ctx.get("exception") or ctx.get("message"))))
        self.t0 = loop.time()
        outcome = "ok"
        try:
            async def wrapper():
                hb = asyncio.ensure_future(self._heartbeat())
                try:
                    await main(self)
                finally:
                    hb.cancel()
            try:
                from .common import HANGS, HangDetected, hang_guard
                n_hangs = len(HANGS)
                try:
                    with hang_guard(float(os.environ.get("VF_SESSION_HANG_S", "180"))):
                        loop.run_until_complete(wrapper())
                    if len(HANGS) > n_hangs:
                        # the guard fired inside a task (asyncio stores a BaseException in the task and carries on)
                        raise HangDetected(HANGS[-1])
                except HangDetected as e:
                    # real time stood still inside one loop step: some callback (a decode, for instance) never returned
                    outcome = "hang"
                    self.errors.append(f"a loop step did not finish: {e}")
            except SpinDetected as e:
                outcome = "spin"
                self.errors.append(str(e))
            except StepLimit as e:
                outcome = "steplimit"
                self.errors.append(str(e))
        finally:
            self.elapsed = loop.time() - self.t0
            self.pending_tasks = []
            try:
                tasks = [t for t in asyncio.all_tasks(loop) if not t.done()]
                self.pending_tasks = [_task_name(t) for t in tasks]
                for t in tasks:
                    t.cancel()
                if tasks:
                    try:
                        loop.run_until_complete(asyncio.gather(*tasks, return_exceptions=True))
                    except BaseException:
                        pass
            finally:
                asyncio.open_connection = saved_open
                io.serial_asyncio.open_serial_connection = saved_serial
                try:
                    loop.run_until_complete(loop.shutdown_asyncgens())
                except BaseException:
                    pass
                asyncio.set_event_loop(None)
                loop.close()
        if self.spin_detected and outcome == "ok":
            outcome = "spin"      # the spinning task was aborted by the guard so that the case could terminate
        self.outcome = outcome
        return outcome

    def elapsed_since_start(self):
        return self.loop.time() - self.t0


def injected_failure(n: int, text: str) -> Exception:
    """The n-th exception an application callback raises: the kinds rotate (with a message, bare, KeyError with a non-string argument,
    an AssertionError from a bare assert, a custom exception whose arguments are not strings)."""
    class AppError(Exception):
        pass
    kinds = [RuntimeError(text), ValueError(), KeyError(42), AssertionError(), AppError(None, {"detail": 1}), IndexError(), LookupError(text)]
    return kinds[n % len(kinds)]


class _Shadow:
    """Read monitor state of a companion client (kept apart from the main client's)."""

    def __init__(self, loop):
        self.loop = loop
        self.reads_in_flight = 0
        self.max_reads_in_flight = 0
        self.read_return_step = -1
        self.read_returns_this_step = 0
        self.spin_detected = False


class Companion:
    def __init__(self, session, kind, connect_plan, client_kwargs):
        import nmea2000.ioclient as io
        self.kind = kind
        self.address = "companion%d" % len(session.companions)
        self.shadow = _Shadow(session.loop)
        self.gw = Gateway(self.shadow, connect_plan)
        self.client_kwargs = dict(client_kwargs or {})
        self.client = None
        self.received = []
        self.bad_deliveries = []
        self.status_trace = []
        self._loop = session.loop

    def make_client(self):
        """(inside the running loop)"""
        import nmea2000.ioclient as io
        kind, kw = self.kind, self.client_kwargs
        if kind == "ebyte":
            c = io.EByteNmea2000Gateway(self.address, 1, **kw)
        elif kind == "actisense":
            c = io.ActisenseNmea2000Gateway(self.address, 1, **kw)
        elif kind == "yd":
            c = io.YachtDevicesNmea2000Gateway(self.address, 1, **kw)
        else:
            c = io.WaveShareNmea2000Gateway("/dev/" + self.address, **kw)
        self.client = c
        loop = self._loop

        async def on_status(state):
            self.status_trace.append((loop.time(), state.name))

        async def on_receive(msg):
            if msg is None or not hasattr(msg, "PGN"):
                self.bad_deliveries.append((loop.time(), repr(msg)[:60]))
                return
            self.received.append((loop.time(), msg))
        c.set_status_callback(on_status)
        c.set_receive_callback(on_receive)
        return c


def _task_name(t):
    try:
        return t.get_coro().__qualname__
    except Exception:
        return repr(t)


async def settle(seconds: float):
    await asyncio.sleep(seconds)


# ---------------------------------------------------------------------------------------------------
# helpers used by C06 / C12
# ---------------------------------------------------------------------------------------------------
FMT_KIND = {"ebyte": "ebyte", "usb": "waveshare", "yd": "yd", "actisense": "actisense"}


def canon(m):
    return (m.id, m.PGN, m.source, m.destination, m.priority, tuple((f.id, repr(f.value), repr(f.raw_value)) for f in m.fields))


def reference_delivery(fmt, packets, decoder_kwargs=None):
    """What a decoder with the same settings returns for the packets one by one (errors caught per packet)."""
    from nmea2000.decoder import NMEA2000Decoder
    dec = NMEA2000Decoder(**(decoder_kwargs or {}))
    out = []
    for p in packets:
        try:
            if fmt == "ebyte":
                m = None if p == b"Sorry,Limited" else dec.decode_tcp(p)
            elif fmt == "usb":
                m = dec.decode_usb(p)
            elif fmt == "yd":
                m = dec.decode_yacht_devices_string(p.decode("utf-8", errors="ignore").strip())
            else:
                m = dec.decode_actisense_string(p.decode("utf-8", errors="ignore").strip())
        except Exception:
            m = None
        if m is not None:
            out.append(canon(m))
    return out


def client_frames(fmt, stream: bytes, cuts=None, decoder_kwargs=None, settle_s=2.0, gap=0.0):
    """Feed `stream` (optionally cut at the given offsets) to the matching client on a healthy link; -> delivered messages (canonical)."""
    s = Session(FMT_KIND[fmt], client_kwargs=decoder_kwargs or {})

    async def main(s):
        c = s.make_client()
        await c.connect()
        await asyncio.sleep(0.05)
        link = s.gw.link
        pos = 0
        for cut in list(cuts or []) + [len(stream)]:
            if cut > pos:
                if gap:
                    # a quiet bus: time passes (event-loop clock and process clock) before the next bytes arrive
                    from .common import CLOCK
                    CLOCK.warp(gap)
                    await asyncio.sleep(gap)
                link.feed(stream[pos:cut])
                pos = cut
                await asyncio.sleep(0)
        await asyncio.sleep(settle_s)
        await c.close()
    s.run(main)
    return [canon(m) for _, m in s.received]


# ---- options passed through a gateway client: client(options) must deliver what a bare decoder(options) returns -------------------
def render_messages(kind, msgs):
    """msgs: list of dict(pgn, src, dest, prio, payload) -> list of byte chunks, one per packet/line, in the client's wire format
    (frame formats: fast-packet PGNs segmented with a per-stream sequence counter)."""
    from . import canboat, wire
    db = canboat.db()
    seqs = {}
    out = []
    for m in msgs:
        pgn, src, dest, prio, payload = m["pgn"], m["src"], m["dest"], m.get("prio", 3), m["payload"]
        if kind == "actisense":
            out.append((wire.actisense(pgn, src, dest, prio, payload) + "\r\n").encode())
            continue
        fast = any(d.fast for d in db.by_pgn.get(pgn, []))
        if fast:
            k = (pgn, src, dest)
            seqs[k] = (seqs.get(k, -1) + 1) % 8
            frames = wire.segment(payload, seqs[k])
        else:
            frames = [payload[:8]]
        i = wire.ident(pgn, src, dest, prio)
        for fr in frames:
            if kind == "ebyte":
                out.append(wire.ebyte(i, fr))
            elif kind == "waveshare":
                out.append(wire.usb(i, fr))
            else:
                out.append((wire.yd(i, fr) + "\r\n").encode())
    return out


def bare_decoder_delivery(kind, chunks, decoder_kwargs=None, dec=None):
    """The messages a bare decoder with the same options returns for the same packets (objects, not canonical forms)."""
    from nmea2000.decoder import NMEA2000Decoder
    dec = dec or NMEA2000Decoder(**(decoder_kwargs or {}))
    out = []
    for p in chunks:
        try:
            if kind == "ebyte":
                m = dec.decode_tcp(p)
            elif kind == "waveshare":
                m = dec.decode_usb(p)
            elif kind == "yd":
                m = dec.decode_yacht_devices_string(p.decode().strip())
            else:
                m = dec.decode_actisense_string(p.decode().strip())
        except Exception:
            m = None
        if m is not None:
            out.append(m)
    return out, dec


def client_passthrough(kind, chunks, client_kwargs=None, reconnect_before=(), companions=0):
    """Feed the chunks to a client of `kind` built with client_kwargs over a healthy link; before the chunk indices in reconnect_before the
    gateway drops the connection and the client reconnects (nothing is in flight at that moment).  -> (delivered message objects, session)."""
    s = Session(kind, client_kwargs=client_kwargs or {}, connect_plan=[("accept",)] * (2 + len(list(reconnect_before))))

    async def main(s):
        c = s.make_client()
        await c.connect()
        await asyncio.sleep(0.2)
        for i, ch in enumerate(chunks):
            if i in reconnect_before:
                old = s.gw.link
                old.eof()
                for _ in range(2000):
                    if s.gw.link is not old and c.state.name == "CONNECTED":
                        break
                    await asyncio.sleep(0.05)
                await asyncio.sleep(0.2)
            s.gw.link.feed(ch)
            await asyncio.sleep(0.01)
        await asyncio.sleep(2.0)
        await c.close()
    s.outcome = s.run(main)
    return [m for _, m in s.received], s


def passthrough_diff(kind, msgs, kwargs_factory, reconnect_before=()):
    """Compare client(options) with decoder(options) on the same packets. kwargs_factory() -> fresh options dict (called twice: the
    library may keep the caller's lists). -> list of (aspect, text); aspect in {session, count, header, fields, identity, hash}."""
    from . import traffic
    chunks = render_messages(kind, msgs)
    # chunk index -> message index boundaries: reconnects happen between messages
    bounds, n = [], 0
    for m in msgs:
        bounds.append(n)
        n += len(render_messages(kind, [m]))
    rb = {bounds[i] for i in reconnect_before if i < len(bounds)}
    got, s = client_passthrough(kind, chunks, kwargs_factory(), reconnect_before=rb)
    if s.outcome != "ok":
        return [("session", f"session ended with {s.outcome}: {s.errors[:1]}")]
    if s.bad_deliveries:
        return [("not-a-message", f"the receive callback was called {len(s.bad_deliveries)} time(s) with something that is not a message: {s.bad_deliveries[0][1]}")]
    exp, _ = bare_decoder_delivery(kind, chunks, kwargs_factory())
    passthrough_diff.last_delivered = len(got)
    if len(got) != len(exp):
        return [("count", f"client delivered {len(got)} messages {[m.id for m in got][:8]}, a decoder with the same options returns {len(exp)} {[m.id for m in exp][:8]}")]
    out = []
    for i, (g, e) in enumerate(zip(got, exp)):
        a, b = traffic.canon(g), traffic.canon(e)
        if a == b:
            continue
        if a[:5] != b[:5]:
            out.append(("header", f"message {i}: {a[:5]} vs {b[:5]}"))
        elif a[5] != b[5]:
            d = [(x, y) for x, y in zip(a[5], b[5]) if x != y][:2]
            out.append(("fields", f"message {i} ({g.id}): client {d[0][0] if d else a[5]} vs decoder {d[0][1] if d else b[5]}"))
        elif a[6] != b[6]:
            out.append(("identity", f"message {i} ({g.id}): sender identity {a[6][:60]} vs {b[6][:60]}"))
        else:
            out.append(("hash", f"message {i} ({g.id}): hash {a[7]} vs {b[7]}"))
        break
    return out


def dual_client_delivery(kind, stream_a: bytes, stream_b: bytes, piece_a=7, piece_b=11, kwargs_a=None, kwargs_b=None):
    """Two clients of one kind in one process, each on its own link; their streams arrive in small pieces (not aligned with packet
    boundaries), alternating between the two links. -> (messages delivered by A, by B, session)"""
    s = Session(kind, client_kwargs=kwargs_a or {})
    comp = s.add_companion(kind, client_kwargs=kwargs_b or {})

    async def main(s):
        a = s.make_client()
        b = comp.make_client()
        await a.connect()
        await b.connect()
        await asyncio.sleep(0.1)
        pa = [stream_a[i:i + piece_a] for i in range(0, len(stream_a), piece_a)]
        pb = [stream_b[i:i + piece_b] for i in range(0, len(stream_b), piece_b)]
        for i in range(max(len(pa), len(pb))):
            if i < len(pa):
                s.gw.link.feed(pa[i])
                await asyncio.sleep(0)
            if i < len(pb):
                comp.gw.link.feed(pb[i])
                await asyncio.sleep(0)
            if i % 5 == 4:
                await asyncio.sleep(0.01)
        await asyncio.sleep(2.0)
        await a.close()
        await b.close()
    s.outcome = s.run(main)
    s.bad_deliveries = s.bad_deliveries + comp.bad_deliveries
    return [m for _, m in s.received], [m for _, m in comp.received], s
