"""atheris target for C20: raw fuzz bytes -> serial stream (valid packets + arbitrary noise) + segmentation -> Waveshare client.
The semantic oracle of vf/props/c20.py runs inside the target."""
from __future__ import annotations

import sys

import atheris

from .. import common  # noqa: F401  (repository under test first on sys.path, logging off)

with atheris.instrument_imports(include=["nmea2000.ioclient", "nmea2000.decoder", "nmea2000.utils", "nmea2000.encoder"]):
    import nmea2000.ioclient  # noqa: F401

from ..props import c20
from .base import Reporter, main

R = Reporter()
MARK = b"\xaa\x55"


def build(fdp):
    items = []
    k = 0
    n = fdp.ConsumeIntInRange(1, 10)
    for _ in range(n):
        kind = fdp.ConsumeIntInRange(0, 5)
        if kind <= 2:
            items.append(("valid", c20.valid_packet(k), k))
            k += 1
        elif kind == 3:
            pk = bytearray(c20.valid_packet(200 + k))
            pk[fdp.ConsumeIntInRange(2, 19)] ^= fdp.ConsumeIntInRange(1, 255)
            items.append(("corrupt" if MARK not in pk[2:] else "marked", bytes(pk), None))
        else:
            raw = fdp.ConsumeBytes(fdp.ConsumeIntInRange(0, 300))
            if MARK in raw:
                kind_ = "marked"
            elif raw.endswith(b"\xaa"):
                kind_ = "half"
            else:
                kind_ = "free"
            items.append((kind_, raw, None))
    stream = b"".join(b for _, b, _ in items)
    cuts = sorted({fdp.ConsumeIntInRange(1, max(1, len(stream) - 1)) for _ in range(fdp.ConsumeIntInRange(0, 8))}) if len(stream) > 1 else []
    return items, cuts, stream


def chance_valid(items, stream):
    starts, pos = set(), 0
    for kind, b, _ in items:
        if kind == "valid":
            starts.add(pos)
        pos += len(b)
    i = stream.find(MARK)
    while i != -1:
        if i not in starts and i + 20 <= len(stream) and sum(stream[i + 2:i + 19]) & 0xFF == stream[i + 19]:
            return True
        i = stream.find(MARK, i + 1)
    return False


def test_one_input(data):
    fdp = atheris.FuzzedDataProvider(data)
    items, cuts, stream = build(fdp)
    # a corrupted packet whose tail swallows nothing is fine; a free noise run directly after a "free" one that ends in AA is "half"
    merged = []
    for it in items:
        merged.append(it)
    if chance_valid(items, stream):
        return
    # adjacency can create markers across item borders (..AA | 55..): treat the following noise as marked
    fixed = []
    prev_tail = b""
    for kind, b, kk in merged:
        if kind in ("free", "half") and prev_tail.endswith(b"\xaa") and b[:1] == b"\x55":
            kind = "marked"
        fixed.append((kind, b, kk))
        prev_tail = (prev_tail + b)[-1:]
    kinds = [k for k, _, _ in fixed]
    nontrivial = any(k in ("free", "half", "marked") and sum(1 for kk in kinds[i + 1:] if kk == "valid") >= 2 for i, k in enumerate(kinds))
    outcome, s = c20.run_case(fixed, cuts, measure=True)
    R.discrepancies(c20.evaluate(fixed, cuts, outcome, s, c20.to_case(fixed, cuts)))
    R.tick(nontrivial)


if __name__ == "__main__":
    main(test_one_input)
