"""Coverage-guided fuzzing tier (atheris).  run_fuzz(ctx, target, seconds) runs vf/fuzz/<target>.py in a subprocess with a
fresh corpus directory outside /verif and merges its JSON report (executions, discrepancies with their inputs) into ctx."""
from __future__ import annotations

import json
import os
import shutil
import subprocess
import sys
import tempfile

from ..common import REPO, VERIF, Ctx


def run_fuzz(ctx: Ctx, target: str, seconds: int, runs: int = 0):
    deps = os.path.join(VERIF, ".deps")
    if not os.path.isdir(os.path.join(deps, "atheris")):
        ctx.notes["fuzz"] = "atheris not installed (./setup.sh installs it from the offline wheelhouse); fuzz tier skipped"
        return
    work = tempfile.mkdtemp(prefix="vffuzz")
    try:
        report = os.path.join(work, "report.json")
        env = dict(os.environ, PYTHONPATH=os.pathsep.join([VERIF, deps, os.environ.get("PYTHONPATH", "")]), VF_FUZZ_REPORT=report)
        cmd = [sys.executable, "-m", f"vf.fuzz.{target}", os.path.join(work, "corpus"), f"-max_total_time={seconds}", f"-seed={ctx.seed}",
               "-print_final_stats=0", "-verbosity=0"]
        if runs:
            cmd.append(f"-runs={runs}")
        os.makedirs(os.path.join(work, "corpus"))
        p = subprocess.run(cmd, env=env, cwd=VERIF, capture_output=True, text=True, timeout=seconds + 300)
        if not os.path.exists(report):
            ctx.notes["fuzz"] = f"fuzz target {target} produced no report (exit {p.returncode}): {p.stderr[-300:]}"
            return
        with open(report) as f:
            rep = json.load(f)
        ctx.count(rep.get("executions", 0))
        ctx.klass("fuzz_executions", rep.get("executions", 0))
        ctx.nontrivial_extra += rep.get("nontrivial", 0)
        ctx.notes["fuzz"] = {k: rep[k] for k in ("executions", "nontrivial", "seconds", "corpus") if k in rep}
        for d in rep.get("discrepancies", []):
            ctx.report(d["bucket"], d["what"], d["case"])
    finally:
        shutil.rmtree(work, ignore_errors=True)
