"""atheris target for C16: fuzz bytes -> entry-point choices + raw inputs for several decoders -> probe; oracle of vf/props/c16.py inside."""
from __future__ import annotations

import atheris

from .. import common  # noqa: F401

with atheris.instrument_imports(include=["nmea2000.decoder", "nmea2000.utils", "nmea2000.message", "nmea2000.encoder"]):
    import nmea2000.decoder  # noqa: F401

from .. import wire
from ..props import c16
from .base import Reporter, main

R = Reporter()
PGNS = [127250, 129029, 126996, 60928, 130306, 59904, 65280, 126720, 130816, 127489, 65000]


def test_one_input(data):
    fdp = atheris.FuzzedDataProvider(data)
    n_dec = fdp.ConsumeIntInRange(2, 3)
    cfg = [fdp.ConsumeIntInRange(0, len(c16.CONFIGS) - 1) for _ in range(n_dec)]
    ops = []
    rejected_like = 0
    for _ in range(fdp.ConsumeIntInRange(1, 30)):
        k = fdp.ConsumeIntInRange(0, 9)
        d = fdp.ConsumeIntInRange(0, n_dec - 1)
        if k <= 5:
            pgn = PGNS[fdp.ConsumeIntInRange(0, len(PGNS) - 1)]
            src = [1, 2, c16.PROBE_SRC][fdp.ConsumeIntInRange(0, 2)]
            raw = fdp.ConsumeBytes(fdp.ConsumeIntInRange(0, 8))
            kind = "claim" if pgn == 60928 and len(raw) == 8 else "raw"
            it = {"kind": kind, "pgn": pgn, "src": src, "dest": 255, "data": raw, "msg": -1}
            if kind == "claim":
                it["name"] = int.from_bytes(raw, "little")
            ops.append({"op": "feed", "dec": d, "item": it})
            rejected_like += len(raw) < 3
        elif k == 6:
            ops.append({"op": "line", "dec": d, "fmt": ["actisense", "yd", "basic"][fdp.ConsumeIntInRange(0, 2)], "text": fdp.ConsumeUnicodeNoSurrogates(40)})
            rejected_like += 1
        elif k == 7:
            ops.append({"op": "usb", "dec": d, "packet": fdp.ConsumeBytes(fdp.ConsumeIntInRange(2, 20)) or b"\xaa\x55"})
            rejected_like += 1
        elif k == 8:
            ops.append({"op": "new", "cfg": fdp.ConsumeIntInRange(0, len(c16.CONFIGS) - 1), "mutate": fdp.ConsumeBool()})
        else:
            ops.append({"op": "encode", "enc": fdp.ConsumeIntInRange(0, 1), "fast": fdp.ConsumeBool()})
    res, W = c16.run_case(n_dec, cfg, ops)
    R.discrepancies(res)
    R.tick(rejected_like > 0)


if __name__ == "__main__":
    main(test_one_input)
