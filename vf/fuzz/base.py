"""Shared scaffolding for atheris targets: report writing (atexit does not run under libFuzzer), bucketed discrepancies."""
from __future__ import annotations

import json
import os
import sys
import time

from ..common import CLOCK

REPORT = os.environ.get("VF_FUZZ_REPORT")


class Reporter:
    def __init__(self):
        self.t0 = time.time()
        self.executions = 0
        self.nontrivial = 0
        self.found = {}
        self._last = 0.0

    def tick(self, nontrivial=False):
        self.executions += 1
        if nontrivial:
            self.nontrivial += 1
        now = time.time() - CLOCK.offset
        if now - self._last > 2.0:
            self.write()
            self._last = now

    def discrepancies(self, ds):
        new = False
        for b, w, c in ds:
            if b not in self.found:
                self.found[b] = {"bucket": b, "what": w, "case": c}
                new = True
        if new:
            self.write()

    def write(self):
        if not REPORT:
            return
        from ..common import jsonable
        tmp = REPORT + ".tmp"
        with open(tmp, "w") as f:
            json.dump({"executions": self.executions, "nontrivial": self.nontrivial, "seconds": round(time.time() - CLOCK.offset - self.t0, 1),
                       "discrepancies": [jsonable(v) for v in self.found.values()]}, f)
        os.replace(tmp, REPORT)


def main(test_one_input, argv=None):
    import atheris
    argv = argv or sys.argv
    atheris.Setup(argv, test_one_input)
    atheris.Fuzz()
