"""Entry point:  python -m vf.main <ID> [quick|thorough]   |   python -m vf.main <ID> --replay <file>"""
from __future__ import annotations

import importlib
import json
import os
import signal
import sys
import time
import traceback


def main(argv):
    if len(argv) < 1:
        print("usage: check <ID> [quick|thorough] | check <ID> --replay <file>", file=sys.stderr)
        return 2
    pid = argv[0].upper()
    if len(argv) >= 2 and argv[1] in ("quick", "thorough"):
        os.environ["VERIF_TIER"] = argv[1]
    elif os.environ.get("VERIF_TIER") not in ("quick", "thorough"):
        os.environ["VERIF_TIER"] = "quick"
    from . import common
    mod = importlib.import_module("vf.props." + pid.lower())

    if len(argv) >= 3 and argv[1] == "--replay":
        with open(argv[2]) as f:
            rep = json.load(f)
        flags = rep["case"].get("interpreter_flags") if isinstance(rep.get("case"), dict) else None
        xenv = rep["case"].get("interpreter_env") if isinstance(rep.get("case"), dict) else None
        if (flags or xenv) and not os.environ.get("VF_SUBPASS"):
            # the case was found under other interpreter conditions: replay it in such an interpreter
            import subprocess
            return subprocess.run([sys.executable] + list(flags or []) + ["-m", "vf.main"] + argv,
                                  env=dict(os.environ, VF_SUBPASS="replay", **(xenv or {}))).returncode
        ctx = common.Ctx(pid)
        ctx.known_open = {}
        if isinstance(rep.get("case"), dict) and "generated" in rep["case"]:
            # a library exception caught at pass level: the case is the generator's draw, not a stand-alone input - the pass is run again
            os.environ["VERIF_TIER"] = rep.get("tier", "quick") if rep.get("tier") in ("quick", "thorough") else "quick"
            mod.run(ctx)
            res = [(b, i["what"], i["case"]) for b, i in ctx.found.items() if b == rep.get("bucket") or "library-exception" in b]
        else:
            res = list(mod.replay(ctx, rep["case"]))
        if res:
            for b, w, _ in res:
                print(f"  bucket {b}: {w}")
            print(f"VIOLATION property={pid} replay={argv[2]}")
            return 1
        print(f"[{pid}] replay {argv[2]}: no discrepancy")
        return 0

    # safety net only: a wall-clock cap yields "inconclusive" (exit 2), never a violation
    cap = int(os.environ.get("VF_WALL_CAP", "1500" if os.environ["VERIF_TIER"] == "quick" else "14400"))

    def on_alarm(signum, frame):
        print(f"[{pid}] wall-clock safety cap of {cap}s hit: inconclusive", file=sys.stderr)
        os._exit(2)
    signal.signal(signal.SIGALRM, on_alarm)
    signal.alarm(cap)

    t0 = time.time()
    ctx = common.Ctx(pid)
    # committed minimal reproductions are replayed first (seconds)
    rdir = os.path.join(common.VERIF, "regress", pid)
    if os.path.isdir(rdir):
        for fn in sorted(os.listdir(rdir)):
            if fn.endswith(".json"):
                with open(os.path.join(rdir, fn)) as f:
                    rep = json.load(f)
                ctx.count()
                ctx.klass("regress")
                for b, w, c in ctx.fresh(mod.replay(ctx, rep["case"])):
                    ctx.found[b] = {"what": w, "case": common.jsonable(c), "via": "regress/" + fn}
    mod.run(ctx)
    # the same (quick) exploration under other ambient conditions of the interpreter process
    for tag, flags, env in common.AMBIENTS:
        if tag not in getattr(mod, "SKIP_AMBIENT", ()) and not os.environ.get("VF_NO_AMBIENT"):
            common.sub_pass(ctx, flags, tag, env)
    return common.finish(ctx, level=mod.LEVEL, rule=mod.RULE, assumptions=mod.ASSUMPTIONS, t0=t0)


if __name__ == "__main__":
    try:
        rc = main(sys.argv[1:])
    except SystemExit:
        raise
    except BaseException:
        traceback.print_exc()
        print("harness error (exit 2, not a violation)", file=sys.stderr)
        rc = 2
    sys.stdout.flush()
    sys.exit(rc)
