"""Regenerates MANIFEST.json from the property modules that exist (python -m vf.manifest_gen)."""
import importlib
import json
import os

from . import common

TECH = {}
NOT_APPLICABLE = {}

def main():
    props = [json.loads(l) for l in open(os.path.join(common.VERIF, "properties.jsonl"))]
    checks, na = [], []
    for p in props:
        pid = p["id"]
        try:
            mod = importlib.import_module("vf.props." + pid.lower())
        except ModuleNotFoundError:
            na.append({"property_id": pid, "reason": NOT_APPLICABLE.get(pid, "check not built yet (planned in DESIGN.md section 3); not claimed")})
            continue
        checks.append({
            "property_id": pid,
            "quick_cmd": f"./check {pid} quick",
            "thorough_cmd": f"./check {pid} thorough",
            "evidence_file": f"evidence/{pid}.json",
            "replay_cmd_template": f"./check {pid} --replay {{path}}",
            "engine": "vf",
            "level_claimed": {"category": mod.LEVEL, "text": mod.LEVEL_TEXT, "design_ref": f"DESIGN.md section 3 {pid}"},
            "level_note": "; ".join(mod.ASSUMPTIONS),
            "technique": mod.TECHNIQUE,
        })
    man = {
        "version": 1,
        "setup_cmd": "./setup.sh",
        "hooks": {"guard": "NMEA2000_VERIF", "enable": "export NMEA2000_VERIF=1 (set by ./check; no source hook exists, every observation point is reached from the public API or by substituting asyncio/serial entry points in the harness process)",
                  "baseline_off_cmd": "cd /repo && /venv/bin/python -m pytest -ra -q -p no:cacheprovider --timeout=900 --continue-on-collection-errors",
                  "source_commits": [], "add_only": True},
        "engines": [{"name": "vf", "path": "vf/", "serves_properties": [c["property_id"] for c in checks],
                     "kind_free_text": "Hypothesis 6.168 strategies and rule-based state machines, exhaustive enumeration of finite sub-spaces, atheris fuzz targets; explicit oracles (database reference model, round trips, differentials, specification models); collect-bucket-shrink driver writing JSON replays"}],
        "checks": checks,
        "notes": "Python needs no build: checks import /repo's working tree directly (PYTHONPATH first). VERIF_SEED seeds every Hypothesis test (seed*1000+shard). Exit 2 = harness error/inconclusive. known_findings.json lists fixed/open genuine defects; regress/<ID>/ holds their minimal replays, run first on every check.",
        "not_applicable": na,
    }
    with open(os.path.join(common.VERIF, "MANIFEST.json"), "w") as f:
        json.dump(man, f, indent=1)
    print("claimed:", [c["property_id"] for c in checks], "not claimed:", [n["property_id"] for n in na])

if __name__ == "__main__":
    main()
