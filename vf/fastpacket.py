"""Helpers around the proprietary fast-packet fallback definitions (PGN 126720 addressed, 130816 broadcast),
the only definitions through which arbitrary payload bytes can be observed on the decode side."""
from __future__ import annotations

from functools import lru_cache

from hypothesis import strategies as st

from . import canboat

PROP_PGNS = (126720, 130816)


@lru_cache(maxsize=None)
def fallback_id(pgn):
    return next(d.id for d in canboat.db().by_pgn[pgn] if d.fallback)


@lru_cache(maxsize=None)
def used_codes(pgn):
    return frozenset(m for d in canboat.db().by_pgn[pgn] for off, bits, m, fid in d.matches if off == 0 and bits == 11)


def header(pgn, code_index: int, res: int = 3, ind: int = 4) -> bytes:
    """Two header bytes whose manufacturer code is used by no sibling definition (so the fallback is selected)."""
    free = [c for c in range(2048) if c not in used_codes(pgn)]
    mc = free[code_index % len(free)]
    v = mc | (res & 3) << 11 | (ind & 7) << 13
    return v.to_bytes(2, "little")


def selects_fallback(pgn, payload: bytes) -> bool:
    d = canboat.db().select(pgn, int.from_bytes(payload, "little"))
    return d is not None and d.fallback


def recon(msg) -> int:
    """Payload (as little-endian integer) carried by a decoded fallback message."""
    f = {x.id: x for x in msg.fields}
    data = f["data"].value
    return (f["manufacturerCode"].raw_value | next(v.value for k, v in f.items() if k.startswith("reserved")) << 11
            | f["industryCode"].raw_value << 13 | int.from_bytes(data, "big") << 16)


@st.composite
def payload(draw, pgn, min_len=0, max_len=223, tag: int | None = None):
    """Arbitrary payload bytes of the given length range that select the fallback definition of pgn.
    Lengths < 2 are completely arbitrary; longer ones carry a 2-byte header with a sibling-free manufacturer code.
    With `tag`, the body bytes are filled with the tag so that mixing of messages is visible."""
    n = draw(st.integers(min_len, max_len))
    if n < 2:
        b = draw(st.binary(min_size=n, max_size=n))
        if not selects_fallback(pgn, b):      # cannot happen (siblings need industry code 4 in bits 13..15)
            b = bytes(n)
        return b
    hdr = header(pgn, draw(st.integers(0, 2047)), draw(st.integers(0, 3)), draw(st.integers(0, 7)))
    if tag is not None:
        body = bytes([tag & 0xFF]) * (n - 2)
    else:
        kind = draw(st.sampled_from(["inc", "ff", "00", "rand"]))
        if kind == "inc":
            body = bytes((i + 1) & 0xFF or 1 for i in range(n - 2))
        elif kind == "ff":
            body = b"\xff" * (n - 2)
        elif kind == "00":
            body = bytes(n - 2)
        else:
            body = draw(st.binary(min_size=n - 2, max_size=n - 2))
    return hdr + body


def stub_encoder(enc, payload_holder: dict):
    """Make this encoder *instance* return payload_holder['payload'] for any message (the proprietary fallbacks carry a
    BINARY field, which the generated encoders refuse, so there is no other way to push free bytes through _encode)."""
    enc._call_encode_function = lambda m: payload_holder["payload"]
    return enc


def prop_message(pgn, src=1, dest=255, prio=3):
    from nmea2000.message import NMEA2000Message
    return NMEA2000Message(PGN=pgn, id=fallback_id(pgn), source=src, destination=dest, priority=prio)
