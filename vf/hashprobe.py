"""Subprocess helper of C17: recompute message hashes in a fresh interpreter (another PYTHONHASHSEED)."""
import json
import sys

from . import common  # noqa: F401  (puts the repository under test on sys.path, disables logging)
from . import traffic


def main():
    from nmea2000.decoder import NMEA2000Decoder
    cases = json.load(sys.stdin)
    dec = NMEA2000Decoder(build_network_map=True)
    claim = traffic.iso_name(4242, 137, 1, 1, 130, 25, 1, 4, 1)
    dec.decode_tcp(traffic.render({"pgn": 60928, "src": 5, "dest": 255, "data": claim.to_bytes(8, "little")}))
    out = []
    for pgn, hexdata in cases:
        data = bytes.fromhex(hexdata)
        line = "2024-01-01-00:00:00.000,3,%d,5,255,%d,%s" % (pgn, len(data), ",".join("%02x" % b for b in data))
        try:
            m = dec.decode_basic_string(line, already_combined=True)
            out.append(m.hash if m is not None else None)
        except Exception:
            out.append("ERR")
    json.dump(out, sys.stdout)


if __name__ == "__main__":
    main()
