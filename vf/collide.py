"""Inputs that collide under cheap digests (CRC-32, byte sum, XOR, CPython's integer hash): a generator dimension for caches and
memo tables keyed by a digest of the input instead of the input."""
from __future__ import annotations

import zlib

M61 = (1 << 61) - 1

_POLY = 0xEDB88320
_TABLE = []
for _i in range(256):
    _c = _i
    for _ in range(8):
        _c = (_c >> 1) ^ _POLY if _c & 1 else _c >> 1
    _TABLE.append(_c)
_REV = {(_TABLE[i] >> 24): i for i in range(256)}


def crc32_forge(prefix: bytes, target: int) -> bytes:
    """Four bytes x such that zlib.crc32(prefix + x) == target."""
    # work on the internal register (pre/post inverted)
    reg = zlib.crc32(prefix) ^ 0xFFFFFFFF
    want = target ^ 0xFFFFFFFF
    # run the register backwards from `want` to find the table indices used by the last four steps
    idx = []
    w = want
    for _ in range(4):
        i = _REV[w >> 24]
        idx.append(i)
        w = ((w ^ _TABLE[i]) << 8) & 0xFFFFFFFF
    idx.reverse()
    out = bytearray()
    r = reg
    for i in idx:
        b = (r ^ i) & 0xFF
        out.append(b)
        r = (r >> 8) ^ _TABLE[(r ^ b) & 0xFF]
    assert zlib.crc32(prefix + bytes(out)) == target
    return bytes(out)


def crc32_forge_at(data: bytes, pos: int, target: int) -> bytes:
    """data with bytes pos..pos+3 replaced so that zlib.crc32(result) == target."""
    # walk the register backwards from the target through the suffix
    r = target ^ 0xFFFFFFFF
    for b in reversed(data[pos + 4:]):
        i = _REV[r >> 24]
        r = (((r ^ _TABLE[i]) << 8) & 0xFFFFFFFF) | (i ^ b)
    patch = crc32_forge(data[:pos], r ^ 0xFFFFFFFF)
    out = data[:pos] + patch + data[pos + 4:]
    assert zlib.crc32(out) == target
    return out


def twin(a: bytes, b_body: bytes, kind: str) -> bytes | None:
    """A byte string that starts with b_body, has the length of `a`, and collides with `a` under `kind`
    (a = a_body + extra bytes; len(a) - len(b_body) extra bytes are free)."""
    free = len(a) - len(b_body)
    if kind == "crc32":
        if free < 4:
            return None
        pre = b_body + bytes(free - 4)
        return pre + crc32_forge(pre, zlib.crc32(a))
    if kind == "crc32-rev":
        # digest taken over the payload in reversed byte order (the library reverses payloads before slicing fields)
        if free < 4:
            return None
        out = crc32_forge_at((b_body + bytes(free))[::-1], 0, zlib.crc32(a[::-1]))[::-1]
        assert out[:len(b_body)] == b_body
        return out
    if kind == "sum":
        if free < 1:
            return None
        pre = b_body + bytes(free - 1)
        return pre + bytes([(sum(a) - sum(pre)) & 0xFF])
    if kind == "xor":
        if free < 1:
            return None
        x = 0
        for c in a:
            x ^= c
        pre = b_body + bytes(free - 1)
        for c in pre:
            x ^= c
        return pre + bytes([x])
    if kind == "pyhash-le" or kind == "pyhash-be":
        # CPython: hash(n) == n mod (2**61 - 1) for non-negative n.  The payload is read as a little-endian (or, reversed, big-endian)
        # integer; eight free bytes are enough to reach any residue.
        if free < 8:
            return None
        order = "little" if kind.endswith("le") else "big"
        A = int.from_bytes(a if order == "little" else a[::-1], "little")
        P = int.from_bytes(b_body, "little")
        shift = 8 * len(b_body)
        # find E < M61 with P + E * 2**shift == A (mod M61)
        E = ((A - P) * pow(pow(2, shift, M61), -1, M61)) % M61
        out = b_body + E.to_bytes(free, "little")
        Bint = int.from_bytes(out, "little")
        assert Bint % M61 == A % M61
        return out
    raise ValueError(kind)


KINDS = ("crc32", "crc32-rev", "sum", "xor", "pyhash-le")
