"""Long runs on one decoder: periodic housekeeping (sweeps every N frames, table resets at round counts) must not lose the message
that happens to start there. Shared by C03, C04 and C07."""
from __future__ import annotations

from . import fastpacket as fp
from . import wire
from .common import Ctx

def tick_targets(limit):
    """Frame counts at which periodic housekeeping is likely to run: powers of two, round decimal numbers and their multiples."""
    t = set()
    e = 4
    while 2 ** e <= limit:
        t.add(2 ** e)
        e += 1
    for p in (2 ** 16, 2 ** 15, 2 ** 14, 2 ** 12, 2 ** 10, 50000, 10000, 100000, 1000, 4096 * 5):
        t.update(range(p, limit + 1, p) if limit // p <= 40 else range(p, 40 * p + 1, p))
    k = 100
    while k <= limit:
        t.update(int(m * k) for m in (1, 2, 2.5, 3, 4, 5, 6, 7.5, 8, 9) if m * k <= limit)
        k *= 10
    out, last = [], -100
    for x in sorted(t):
        if x - last >= 16 and x <= limit:
            out.append(x)
            last = x
    return out


class TooManyErrors(Exception):
    pass


def tick_history(limit, report, targets=None, prefix="C03"):
    try:
        return _tick_history(limit, report, targets, prefix)
    except TooManyErrors:
        return 0


def _tick_history(limit, report, targets, prefix):
    """One decoder sees a long run of fast-packet frames (up to `limit`). Around every target count T three otherwise idle streams
    (fresh or long unused keys) start a message on the (T-1)-th, T-th and (T+1)-th frame the decoder has ever seen; every message
    (also of the busy filler stream) must be delivered. report(bucket, what) is called for every discrepancy."""
    from nmea2000.decoder import NMEA2000Decoder
    dec = NMEA2000Decoder()
    count = 0
    seqs = {}
    errors = []

    def send(pgn, src, dest, frames):
        nonlocal count
        r = None
        i = wire.ident(pgn, src, dest, 3)
        for fr in frames:
            count += 1
            try:
                r = dec.decode_tcp(wire.ebyte(i, fr))
            except Exception as e:
                r = None
                if not errors:
                    report(f"{prefix}|ebyte|long-run|decoder-error", f"frame {count} of the run: {type(e).__name__}: {e}")
                errors.append(count)
                if len(errors) > 50:
                    raise TooManyErrors()
        return r

    def fresh(key, payload):
        seqs[key] = (seqs.get(key, -1) + 1) % 8
        return wire.segment(payload, seqs[key])

    def verify(r, pgn, payload, what):
        if r is None:
            report(f"{prefix}|ebyte|long-run|not-delivered", f"{what}: no message after the last frame")
        elif r.id != fp.fallback_id(pgn) or fp.recon(r) != int.from_bytes(payload, "little"):
            report(f"{prefix}|ebyte|long-run|payload", f"{what}: wrong message or payload")

    msgno = 0
    h2, h1 = fp.header(130816, 1), fp.header(130816, 2)
    for ti, target in enumerate(targets if targets is not None else tick_targets(limit)):
        # busy stream up to two frames before the target
        while count < target - 2:
            left = target - 2 - count
            pl = (h2 + bytes([msgno & 0xFF]) * 8) if left >= 2 else (h1 + bytes([msgno & 0xFF]) * 3)     # two frames / one frame
            msgno += 1
            verify(send(130816, 2, 255, fresh("f", pl)), 130816, pl, f"busy stream message {msgno} (frame {count} of the run)")
        idle = []
        for j in range(3):
            n = 3 * ti + j
            src, dest = 10 + n % 240, 5 + (n // 240) % 5
            pl = fp.header(126720, 3 + j) + bytes([ti & 0xFF, j, 0xA5]) * 5          # 17 bytes: three frames
            frames = fresh(("r", src, dest), pl)
            idle.append((src, dest, pl, frames, count + 1))
            if send(126720, src, dest, frames[:1]) is not None:
                report(f"{prefix}|ebyte|long-run|early-delivery", f"message returned at a first frame (frame {count} of the run)")
        for src, dest, pl, frames, at in idle:
            verify(send(126720, src, dest, frames[1:]), 126720, pl,
                   f"idle stream {src}->{dest}: message whose first frame was frame number {at} seen by the decoder")
    return count


def ticks(ctx: Ctx, item):
    limit, prefix = item
    found = []
    targets = tick_targets(limit)
    n = tick_history(limit, lambda b, w: found.append((b, w)), targets, prefix)
    ctx.count(n)
    ctx.nontrivial_extra += len(targets) * 3
    ctx.klass("long_run_frames", n)
    ctx.klass("long_run_idle_stream_messages", len(targets) * 3)
    for b, w in found[:5]:
        ctx.report(b, w, {"ticks": limit})



def limits(ctx):
    import os
    return [2 ** 17 + 100] if os.environ.get("VF_SUBPASS") else [2 ** 18 + 100, 2 ** 20 + 100] if ctx.quick else [2 ** 18 + 100, 2 ** 20 + 100, 2 ** 22 + 100]


def replay(case, prefix):
    found = []
    tick_history(case["ticks"], lambda b, w: found.append((b, w, case)), None, prefix)
    return found[:5]
