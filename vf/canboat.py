"""Database loader and REFERENCE MODEL of canboat.json (DESIGN.md 2.3).

Written from the canboat documentation embedded in the database (FieldTypes[*].EncodingDescription)
and from the field attributes themselves; it does not import anything from nmea2000.utils or
nmea2000.pgns.  All arithmetic on resolutions, offsets and ranges is exact (Fraction on the JSON
literals).
"""
from __future__ import annotations

import json
import os
import struct
from datetime import date, time, timedelta
from decimal import Decimal
from fractions import Fraction
from functools import lru_cache

from .common import REPO

NUMBERLIKE = ("NUMBER", "MMSI", "PGN", "DURATION", "TIME", "DATE")
UNSUPPORTED_TYPES = ("DECIMAL", "FIELD_INDEX", "VARIABLE", "ISO_NAME", "DYNAMIC_FIELD_KEY", "DYNAMIC_FIELD_LENGTH",
                     "DYNAMIC_FIELD_VALUE")
ENCODABLE_TYPES = ("NUMBER", "PGN", "RESERVED", "FLOAT", "LOOKUP", "DATE", "TIME", "DURATION")


def frac(x):
    if x is None:
        return None
    if isinstance(x, Decimal):
        return Fraction(x)
    return Fraction(x)


class Field:
    __slots__ = ("order", "raw_id", "id", "name", "description", "type", "bits", "offset_bits", "signed", "res", "res_lit",
                 "offset", "rmin", "rmax", "rmin_lit", "rmax_lit", "unit", "pq", "lookup", "bitlookup", "indirect", "indirect_order",
                 "match", "pk", "bitlength_field", "variable", "index")

    def __init__(self, j, index):
        self.index = index
        self.order = j["Order"]
        self.raw_id = j["Id"]
        self.type = j["FieldType"]
        self.offset_bits = j.get("BitOffset")
        # the encoder looks reserved fields up as reserved_<offset>, and the README shows the same id on decode
        self.id = ("reserved_" + str(self.offset_bits)) if self.type == "RESERVED" else j["Id"]
        if self.type == "RESERVED" and self.offset_bits is None:
            self.id = None      # the library's naming rule needs an offset; no expectation for position-less reserved fields
        self.name = j["Name"]
        self.description = j.get("Description")
        self.bits = j.get("BitLength")
        self.signed = bool(j.get("Signed", False))
        self.res_lit = j.get("Resolution")
        self.res = frac(j.get("Resolution")) if j.get("Resolution") is not None else Fraction(1)
        self.offset = frac(j.get("Offset"))
        self.rmin_lit = j.get("RangeMin")
        self.rmax_lit = j.get("RangeMax")
        self.rmin = frac(j.get("RangeMin"))
        self.rmax = frac(j.get("RangeMax"))
        self.unit = j.get("Unit")
        self.pq = j.get("PhysicalQuantity")
        self.lookup = j.get("LookupEnumeration")
        self.bitlookup = j.get("LookupBitEnumeration")
        self.indirect = j.get("LookupIndirectEnumeration")
        self.indirect_order = j.get("LookupIndirectEnumerationFieldOrder")
        self.match = j.get("Match")
        self.pk = bool(j.get("PartOfPrimaryKey", False))
        self.bitlength_field = j.get("BitLengthField")
        self.variable = bool(j.get("BitLengthVariable", False))

    # ---- number semantics ----------------------------------------------------------------
    @property
    def numberlike(self):
        return self.type in NUMBERLIKE

    def to_signed(self, u):
        """Unsigned bit pattern -> the integer the field denotes (before scaling)."""
        if self.signed and self.offset is None and u >> (self.bits - 1):
            return u - (1 << self.bits)
        return u

    def na_code(self):
        """Unsigned bit pattern that means 'not available', or None when the field has none (1-bit fields)."""
        if self.bits is None or self.bits < 2:
            return None
        if self.signed and self.offset is None:
            return (1 << (self.bits - 1)) - 1
        return (1 << self.bits) - 1

    def exact(self, u):
        """Exact value denoted by the unsigned bit pattern u (excess-K when the field has an Offset)."""
        v = self.to_signed(u) * self.res
        if self.offset is not None:
            v += self.offset
        return v

    def in_range(self, u):
        """Range membership decided on the JSON literals, exactly. None when the database gives no range."""
        if self.rmin is None or self.rmax is None:
            return None
        v = self.exact(u)
        return self.rmin <= v <= self.rmax

    def na_in_range(self):
        c = self.na_code()
        return c is not None and bool(self.in_range(c))


class Definition:
    def __init__(self, j, index, multi):
        self.index = index
        self.pgn = j["PGN"]
        self.id = j["Id"]
        self.key = f"{self.pgn}/{self.id}"
        self.description = j["Description"]
        self.interval = j.get("TransmissionInterval")
        self.fast = j["Type"] == "Fast"
        self.ptype = j["Type"]
        self.length = j.get("Length")
        self.min_length = j.get("MinLength")
        self.fallback = bool(j.get("Fallback", False))
        self.fields = [Field(f, i) for i, f in enumerate(j["Fields"])]
        self.multi = multi
        self.repeating = j.get("RepeatingFieldSet1Size")
        self.matches = [(f.offset_bits, f.bits, f.match, f.id) for f in self.fields if f.match is not None]
        self.unsupported = [f.type for f in self.fields if f.type in UNSUPPORTED_TYPES]
        self.supported = not self.unsupported
        self.encodable = all(f.type in ENCODABLE_TYPES and f.bits is not None and f.offset_bits is not None
                             for f in self.fields)
        self.fixed_layout = all(f.bits is not None and f.offset_bits is not None for f in self.fields)

    def fixed_end_bits(self):
        return max((f.offset_bits + f.bits for f in self.fields if f.offset_bits is not None and f.bits is not None), default=0)

    def nbytes(self):
        """Payload size for generation: the database length, else enough for every fixed field."""
        n = (self.fixed_end_bits() + 7) // 8
        if self.length is not None:
            n = max(n, self.length) if not self.fixed_layout else self.length
        if self.min_length is not None:
            n = max(n, self.min_length)
        return max(n, 1)

    def func_suffix(self):
        return f"{self.pgn}_{self.id}" if self.multi else str(self.pgn)


class DB:
    def __init__(self, path):
        with open(path) as f:
            self.j = json.load(f, parse_float=Decimal)
        pgns = self.j["PGNs"]
        groups = {}
        for p in pgns:
            groups.setdefault(p["PGN"], []).append(p)
        self.groups_raw = groups
        has_match = {pgn: any("Match" in f for p in g for f in p["Fields"]) for pgn, g in groups.items()}
        self.defs = [Definition(p, i, len(groups[p["PGN"]]) > 1 and has_match[p["PGN"]]) for i, p in enumerate(pgns)]
        self.by_key = {d.key: d for d in self.defs}
        self.by_pgn = {}
        for d in self.defs:
            self.by_pgn.setdefault(d.pgn, []).append(d)
        self.lookups = {}
        self.lookup_dups = {}
        for l in self.j["LookupEnumerations"]:
            t = {}
            for e in l["EnumValues"]:
                if e["Value"] in t:
                    self.lookup_dups.setdefault(l["Name"], {}).setdefault(e["Value"], {t[e["Value"]]}).add(e["Name"])
                t[e["Value"]] = e["Name"]
            self.lookups[l["Name"]] = t
        self.bitlookups = {l["Name"]: {e["Bit"]: e["Name"] for e in l["EnumBitValues"]} for l in self.j["LookupBitEnumerations"]}
        self.indirect = {l["Name"]: {(e["Value1"], e["Value2"]): e["Name"] for e in l["EnumValues"]}
                         for l in self.j["LookupIndirectEnumerations"]}

    # ---- definition selection (oracle of C08, payload construction of C01) -----------------------
    def select(self, pgn, payload_int):
        """First definition in database order all of whose match fields equal, else fallback, else None."""
        ds = self.by_pgn.get(pgn, [])
        if not ds:
            return None
        fb = None
        for d in ds:
            if d.fallback:
                fb = d
                continue
            # a definition without match fields matches vacuously
            if all(((payload_int >> off) & ((1 << bits) - 1)) == m for off, bits, m, _ in d.matches):
                return d
        return fb


@lru_cache(maxsize=None)
def db() -> DB:
    return DB(os.path.join(REPO, "canboat.json"))


# ------------------------------------------------------------------------------------------------
# Reference decode
# ------------------------------------------------------------------------------------------------
class Exp:
    """Expectation for one field."""
    __slots__ = ("field", "pos", "bits", "u", "kind", "value", "raw", "in_range", "wellformed", "na", "note")

    def __init__(self, field, pos, bits, u):
        self.field = field
        self.pos = pos
        self.bits = bits
        self.u = u
        self.kind = None      # how value must be compared
        self.value = None
        self.raw = None
        self.in_range = None  # True / False / None (no range in database)
        self.wellformed = True
        self.na = False
        self.note = ""


def f32(u):
    return struct.unpack("<f", struct.pack("<I", u & 0xFFFFFFFF))[0]


def clean_text(b: bytes):
    """Text of a *clean* fixed string: printable ASCII without '@', no leading/trailing blank, followed by a
    (possibly empty) homogeneous padding run of NUL / 0xFF / '@' / blank. None if the bytes are not of that shape."""
    k = len(b)
    if k and b[-1] in (0x00, 0xFF, 0x40, 0x20):
        pad = b[-1]
        while k > 0 and b[k - 1] == pad:
            k -= 1
    body = b[:k]
    if not all(0x20 <= c <= 0x7E and c != 0x40 for c in body):
        return None
    s = body.decode("ascii")
    if s != s.strip():
        return None
    return s


def ref_decode(d: Definition, payload: int, nbytes: int):
    """Expected fields of definition d for the payload (little-endian integer of nbytes bytes).

    Returns (list[Exp], all_in_range: bool, wellformed: bool)."""
    database = db()
    exps = []
    pos = 0
    raws_by_order = {}
    total_bits = nbytes * 8
    wellformed = True
    for f in d.fields:
        if f.offset_bits is not None:
            pos = f.offset_bits
        t = f.type
        if t in UNSUPPORTED_TYPES:
            e = Exp(f, pos, f.bits, None)
            e.kind = "unsupported"
            exps.append(e)
            if f.bits is not None:
                pos += f.bits
            continue
        if t == "STRING_LAU":
            ln = (payload >> pos) & 0xFF
            typ = (payload >> (pos + 8)) & 0xFF
            e = Exp(f, pos, 8 * ln, None)
            body = ((payload >> (pos + 16)) & ((1 << (8 * max(ln - 2, 0))) - 1)).to_bytes(max(ln - 2, 0), "little")
            e.kind = "str_any"
            if ln < 2 or pos + 8 * ln > total_bits or typ not in (0, 1):
                e.wellformed = False
                wellformed = False
            else:
                try:
                    if typ == 1:
                        # single-byte encoding: ASCII, and - as canboat passes the bytes through - UTF-8 text
                        s = body.decode("utf-8")
                        ok = all(0x20 <= ord(c) and ord(c) != 0x7F and not (0x80 <= ord(c) <= 0x9F) for c in s)
                    else:
                        s = body.decode("utf-16-le")
                        ok = len(body) % 2 == 0 and all(0x20 <= ord(c) and not (0xD800 <= ord(c) <= 0xDFFF) and c not in ("\ufeff", "\ufffe") for c in s)
                    if ok:
                        e.kind = "str"
                        e.value = s
                except UnicodeDecodeError:
                    pass
            exps.append(e)
            pos += 8 * ln
            continue
        if t == "STRING_LZ":
            ln = (payload >> pos) & 0xFF
            e = Exp(f, pos, 8 * (ln + 2), None)
            body = ((payload >> (pos + 8)) & ((1 << (8 * ln)) - 1)).to_bytes(ln, "little")
            e.kind = "str_any"
            if pos + 8 * (ln + 1) > total_bits:
                e.wellformed = False
                wellformed = False
            elif all(0x20 <= c <= 0x7E for c in body):
                e.kind = "str"
                e.value = body.decode("ascii")
            exps.append(e)
            pos += 8 * (ln + 2)
            continue
        bits = f.bits
        if t == "BINARY" and bits is None:
            lf = d.fields[f.bitlength_field - 1]
            bits = raws_by_order.get(lf.order, 0)
            if lf.na_code() is not None and bits == lf.na_code():
                bits = 0
                wellformed = False     # a binary field of unknown length: nothing is promised for such a payload
        if bits is None:
            e = Exp(f, pos, None, None)
            e.kind = "unsupported"
            exps.append(e)
            continue
        u = (payload >> pos) & ((1 << bits) - 1)
        raws_by_order[f.order] = u
        e = Exp(f, pos, bits, u)
        if t in NUMBERLIKE:
            na = f.na_code()
            e.in_range = f.in_range(u)
            if na is not None and u == na:
                e.na = True
                if f.na_in_range():
                    e.kind = "num_or_none"     # database range includes the all-ones code: either reading accepted
                    e.value = f.exact(u)
                    e.in_range = True
                else:
                    e.kind = "none"
                    e.in_range = True          # a field that is not available is never out of range
            else:
                x = f.exact(u)
                if t == "DATE":
                    e.kind = "date"
                    e.raw = x
                    try:
                        e.value = date(1970, 1, 1) + timedelta(days=int(x))
                    except OverflowError:
                        e.kind = "any"
                elif t == "TIME":
                    e.raw = x
                    if 0 <= x < 86400:
                        s = int(x)
                        e.kind = "time"
                        e.value = time(s // 3600, (s % 3600) // 60, s % 60)
                    else:
                        e.kind = "time_any"
                else:
                    e.kind = "num"
                    e.value = x
        elif t == "FLOAT":
            v = f32(u)
            e.kind = "float"
            e.value = v
            if v != v:
                e.in_range = None
                e.kind = "float_nan"
            elif f.rmin is not None:
                e.in_range = float(f.rmin) <= v <= float(f.rmax)
        elif t == "LOOKUP":
            e.kind = "lookup"
            table = database.lookups[f.lookup]
            e.value = table.get(u)
            dups = database.lookup_dups.get(f.lookup, {}).get(u)
            if dups:
                e.kind = "lookup_oneof"
                e.value = dups
        elif t == "BITLOOKUP":
            table = database.bitlookups[f.bitlookup]
            e.kind = "bitlookup"
            e.value = ", ".join(table[b] for b in range(bits) if (u >> b) & 1 and b in table)
        elif t == "INDIRECT_LOOKUP":
            e.kind = "indirect"          # resolved below once the referenced field is known
        elif t in ("RESERVED", "SPARE"):
            e.kind = "int"
            e.value = u
        elif t == "BINARY":
            e.kind = "bytes_int"
            e.value = u
        elif t == "STRING_FIX":
            b = u.to_bytes((bits + 7) // 8, "little")
            s = clean_text(b)
            if s is None:
                e.kind = "str_any"
            else:
                e.kind = "str"
                e.value = s
        else:
            e.kind = "unsupported"
        exps.append(e)
        pos += bits
    for e in exps:
        if e.kind == "indirect":
            ref = raws_by_order.get(e.field.indirect_order)
            e.value = database.indirect[e.field.indirect].get((ref, e.u)) if ref is not None else None
    all_in_range = all(e.in_range is not False for e in exps)
    return exps, all_in_range, wellformed


# ------------------------------------------------------------------------------------------------
# Comparison with the library's result
# ------------------------------------------------------------------------------------------------
REL_TOL = 1e-12


def close(actual, exact: Fraction):
    if isinstance(actual, bool) or not isinstance(actual, (int, float)):
        return False
    if actual != actual:
        return False
    ex = float(exact)
    if actual == ex:
        return True
    return abs(Fraction(actual) - exact) <= abs(exact) * Fraction(REL_TOL) + Fraction(1, 10 ** 300)


def compare_field(e: Exp, got, consts):
    """Yield (aspect, text) for every mismatch between expectation e and the library's NMEA2000Field `got`."""
    f = e.field
    PQ, FT = consts
    if f.id is not None and got.id != f.id:
        yield "id", f"id {got.id!r} != {f.id!r}"
    if got.name != f.name:
        yield "name", f"name {got.name!r} != {f.name!r}"
    if got.unit_of_measurement != f.unit:
        yield "unit", f"unit {got.unit_of_measurement!r} != {f.unit!r}"
    # compared by NAME: two enumeration members with one value are aliases of each other and would compare equal
    got_pq = getattr(got.physical_quantities, "name", got.physical_quantities)
    if got_pq != f.pq:
        yield "quantity", f"physical quantity {got.physical_quantities!r} != {f.pq!r}"
    if getattr(got.type, "name", got.type) != f.type:
        yield "type", f"type {got.type!r} != {f.type}"
    if bool(got.part_of_primary_key) != f.pk:
        yield "primary_key", f"part_of_primary_key {got.part_of_primary_key!r} != {f.pk}"
    k = e.kind
    v, r = got.value, got.raw_value
    if k in ("any", "str_any", "unsupported", "float_nan", "time_any"):
        return
    if k == "none":
        if v is not None:
            yield "sentinel", f"not-available pattern {e.u:#x} reported as value {v!r}"
        if r is not None:
            yield "sentinel_raw", f"not-available pattern {e.u:#x} reported as raw value {r!r}"
    elif k == "num_or_none":
        if v is not None and not close(v, e.value):
            yield "value", f"value {v!r} != {float(e.value)!r} (raw bits {e.u:#x})"
    elif k == "num":
        if v is None:
            yield "lost_value", f"raw bits {e.u:#x} (= {float(e.value)!r}) reported as no value"
        elif not close(v, e.value):
            yield "value", f"value {v!r} != {float(e.value)!r} (raw bits {e.u:#x})"
        if v is not None and r is not None and not close(r, e.value):
            yield "raw_value", f"raw_value {r!r} != {float(e.value)!r}"
    elif k == "float":
        if v != e.value:
            yield "value", f"float {v!r} != {e.value!r} (bits {e.u:#x})"
    elif k == "date":
        if v != e.value:
            yield "value", f"date {v!r} != {e.value!r}"
        if not close(r, e.raw):
            yield "raw_value", f"date raw_value {r!r} != {float(e.raw)!r}"
    elif k == "time":
        if v != e.value:
            yield "value", f"time {v!r} != {e.value!r}"
        if not close(r, e.raw):
            yield "raw_value", f"time raw_value {r!r} != {float(e.raw)!r}"
    elif k in ("lookup", "bitlookup", "indirect", "str"):
        if v != e.value:
            yield "value", f"{k} value {v!r} != {e.value!r} (raw bits {e.u if e.u is not None else '-'})"
        if k != "str" and r != e.u:
            yield "raw_value", f"{k} raw_value {r!r} != {e.u!r}"
    elif k == "lookup_oneof":
        if v not in e.value:
            yield "value", f"lookup value {v!r} not one of {sorted(e.value)!r}"
        if r != e.u:
            yield "raw_value", f"lookup raw_value {r!r} != {e.u!r}"
    elif k == "int":
        if v != e.value or isinstance(v, bool):
            yield "value", f"value {v!r} != {e.value!r}"
        if r != e.value:
            yield "raw_value", f"raw_value {r!r} != {e.value!r}"
    elif k == "bytes_int":
        if not isinstance(v, (bytes, bytearray)) or int.from_bytes(v, "big") != e.value:
            yield "value", f"binary value {v!r} != integer {e.value:#x}"


def lib_consts():
    from nmea2000.consts import FieldTypes, PhysicalQuantities
    return PhysicalQuantities, FieldTypes
