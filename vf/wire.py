"""Reference renderers / parsers for the five wire formats, independent of nmea2000.encoder / decoder.

A CAN frame is (ident: 29-bit int, data: bytes of 0..8).  A whole message is (pgn, src, dest, prio, payload).
"""
from __future__ import annotations


def ident(pgn: int, src: int, dest: int, prio: int) -> int:
    pf = (pgn >> 8) & 0xFF
    dp = (pgn >> 16) & 0x3
    ps = dest if pf < 240 else pgn & 0xFF
    return (prio & 7) << 26 | dp << 24 | pf << 16 | (ps & 0xFF) << 8 | (src & 0xFF)


def parse_ident(i: int):
    src = i & 0xFF
    ps = (i >> 8) & 0xFF
    pf = (i >> 16) & 0xFF
    dp = (i >> 24) & 3
    prio = (i >> 26) & 7
    if pf < 240:
        return (dp << 16) | (pf << 8), src, ps, prio
    return (dp << 16) | (pf << 8) | ps, src, 255, prio


# ---- renderers (frame level) --------------------------------------------------------------------
def ebyte(i: int, data: bytes, pad: bytes = b"\x00" * 8) -> bytes:
    """13-byte EByte/ECAN packet: type byte (extended frame flag | length), identifier big-endian, 8 data bytes."""
    return bytes([0x80 | len(data)]) + i.to_bytes(4, "big") + data + pad[: 8 - len(data)]


def usb(i: int, data: bytes, pad: bytes = b"\x00" * 8) -> bytes:
    """20-byte Waveshare packet: AA 55 01 02 01, identifier little-endian, length, 8 data bytes, reserved, checksum."""
    p = bytes([0xAA, 0x55, 0x01, 0x02, 0x01]) + i.to_bytes(4, "little") + bytes([len(data)]) + data + pad[: 8 - len(data)] + b"\x00"
    return p + bytes([sum(p[2:19]) & 0xFF])


def yd(i: int, data: bytes, direction: str = "R", upper: bool = True, ts: str = "12:34:56.789") -> str:
    h = "%08X" % i
    d = " ".join("%02X" % b for b in data)
    if not upper:
        h, d = h.lower(), d.lower()
    return f"{ts} {direction} {h} {d}".rstrip()


def plain(pgn, src, dest, prio, data: bytes, ts: str = "2024-01-02-03:04:05.678", upper=False) -> str:
    fmt = "%02X" if upper else "%02x"
    return "%s,%d,%d,%d,%d,%d,%s" % (ts, prio, pgn, src, dest, len(data), ",".join(fmt % b for b in data))


def actisense(pgn, src, dest, prio, payload: bytes, ts: str = "A000123.456", upper=True) -> str:
    n = (src << 12) | (dest << 4) | prio
    s = "%05X %05X %s" % (n, pgn, payload.hex().upper())
    if not upper:
        s = s.lower()
    return f"{ts} {s}"


# ---- packet -> CAN data extraction for the three frame formats -----------------------------------
def ebyte_frame(pk: bytes):
    return int.from_bytes(pk[1:5], "big"), bytes(pk[5:5 + (pk[0] & 0x0F)])


def usb_frame(pk: bytes):
    return int.from_bytes(pk[5:9], "little"), bytes(pk[10:10 + pk[9]])


def yd_frame(pk: bytes):
    parts = pk.decode().split()
    return int(parts[0], 16), bytes(int(x, 16) for x in parts[1:])


# ---- reference fast-packet segmentation -----------------------------------------------------------
def segment(payload: bytes, seq: int):
    """Frames (CAN data bytes) of a fast-packet message per the standard: 6 bytes + 7 bytes each, no padding."""
    n = len(payload)
    frames = [bytes([(seq & 7) << 5, n]) + payload[:6]]
    k = 1
    off = 6
    while off < n:
        frames.append(bytes([((seq & 7) << 5) | k]) + payload[off:off + 7])
        off += 7
        k += 1
    return frames


def n_frames(n: int) -> int:
    return 1 if n <= 6 else 1 + (n - 6 + 6) // 7


def split_stream(kind: str, stream: bytes):
    """Reference splitter of a concatenation of packets: 13-byte blocks, 20-byte blocks, CR LF lines."""
    if kind == "ebyte":
        return [stream[i:i + 13] for i in range(0, len(stream), 13)]
    if kind == "usb":
        return [stream[i:i + 20] for i in range(0, len(stream), 20)]
    out = stream.split(b"\r\n")
    assert out[-1] == b""
    return [x + b"\r\n" for x in out[:-1]]


def owned(call, packet: bytes, view: bool = False):
    """call(buffer) with the packet in a buffer the CALLER owns (a bytearray, or a memoryview of it) that is overwritten as soon as the
    call has returned - the recv_into / readinto pattern.  The library must not keep references into it."""
    buf = bytearray(packet)
    try:
        return call(memoryview(buf) if view else buf)
    finally:
        buf[:] = b"\xee" * len(buf)
