#!/bin/bash
# tools/seedcheck.sh <ID> <dir with patch.diff demo.py notes.md> [extra check ids...]
# Confirms a seeded change (tests pass, demo fails with / passes without) and runs ./check <ID> quick against it in a scratch worktree.
ID=$1; D=$(realpath "$2"); shift 2
V=/verif
W=$(mktemp -d /tmp/vfseed.XXXXXX)
git -C /repo worktree add -q --detach "$W/r" HEAD || exit 2
res() { echo "SEED $ID $(basename $D): $*"; }
if ! git -C "$W/r" apply "$D/patch.diff" 2>/dev/null; then res "PATCH-DOES-NOT-APPLY"; git -C /repo worktree remove --force "$W/r"; rm -rf "$W"; exit 3; fi
if [ -n "$SEEDCHECK_SKIP_CONFIRM" ]; then
  # (re-runs of already confirmed seeds: only the check is exercised)
  T=tests-skipped; DW=-; DO=-
else
(cd "$W/r" && PYTHONPATH="$W/r" /venv/bin/python -m pytest -q -p no:cacheprovider >/dev/null 2>&1) && T=tests-pass || T=TESTS-FAIL
(cd /tmp && PYTHONPATH="$W/r" timeout 120 /venv/bin/python "$D/demo.py" >/dev/null 2>&1); DW=$?
(cd /tmp && PYTHONPATH=/repo timeout 120 /venv/bin/python "$D/demo.py" >/dev/null 2>&1); DO=$?
fi
out=""
for c in $ID "$@"; do
  # first without the ambient sub-passes (fast); with them only if that run stays green
  o=$(cd $V && VF_NO_AMBIENT=1 VF_REPO="$W/r" VF_EVIDENCE_DIR="$W/ev" ./check $c quick 2>&1); rc=$?
  if [ $rc = 0 ]; then o=$(cd $V && VF_REPO="$W/r" VF_EVIDENCE_DIR="$W/ev" ./check $c quick 2>&1); rc=$?; fi
  n=$(echo "$o" | grep -c '^VIOLATION')
  b=$(echo "$o" | grep '^  bucket' | head -2 | cut -c1-160 | tr '\n' ';')
  out="$out [$c exit=$rc viol=$n $b]"
done
res "$T demo(with)=$DW demo(without)=$DO $out"
git -C /repo worktree remove --force "$W/r"; rm -rf "$W"
