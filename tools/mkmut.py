#!/venv/bin/python
"""tools/mkmut.py <ID> <name> <file> <old> <new> [occurrence]  -> mutants/<ID>/<name>.patch (exact string replacement in a scratch worktree)"""
import os, subprocess, sys, tempfile, shutil
pid, name, path, old, new = sys.argv[1:6]
occ = int(sys.argv[6]) if len(sys.argv) > 6 else None
old = old.encode().decode("unicode_escape"); new = new.encode().decode("unicode_escape")
src = open(os.path.join("/repo", path)).read()
n = src.count(old)
if n == 0: sys.exit(f"pattern not found in {path}")
if n > 1 and occ is None: sys.exit(f"pattern occurs {n} times; give an occurrence index")
idx = -1
for _ in range((occ or 0) + 1):
    idx = src.index(old, idx + 1)
dst = src[:idx] + new + src[idx + len(old):]
tmp = tempfile.mkdtemp(prefix="mkmut")
try:
    a = os.path.join(tmp, "a", path); b = os.path.join(tmp, "b", path)
    os.makedirs(os.path.dirname(a)); os.makedirs(os.path.dirname(b))
    open(a, "w").write(src); open(b, "w").write(dst)
    diff = subprocess.run(["diff", "-u", os.path.join("a", path), os.path.join("b", path)], cwd=tmp, capture_output=True, text=True).stdout
finally:
    shutil.rmtree(tmp)
out = os.path.join(os.path.dirname(os.path.dirname(os.path.abspath(__file__))), "mutants", pid)
os.makedirs(out, exist_ok=True)
open(os.path.join(out, name + ".patch"), "w").write(diff)
print("wrote", os.path.join(out, name + ".patch"), f"({len(diff.splitlines())} lines)")
