#!/venv/bin/python
"""tools/seedkeep.py <ID> <variant dir> [<name>]  - confirm a seeded change and keep it under /verif/seeded/<ID>-<name>/ with meta.json"""
import json, os, re, shutil, subprocess, sys
pid, src = sys.argv[1], sys.argv[2].rstrip("/")
name = sys.argv[3] if len(sys.argv) > 3 else os.path.basename(src)
V = os.path.dirname(os.path.dirname(os.path.abspath(__file__)))
out = subprocess.run([os.path.join(V, "tools/seedcheck.sh"), pid, src], capture_output=True, text=True).stdout.strip()
print(out[:400])
m = re.search(r"(tests-pass|TESTS-FAIL) demo\(with\)=(\d+) demo\(without\)=(\d+)\s+\[(\w+) exit=(\d+) viol=(\d+)(.*)\]", out, re.S)
if not m:
    sys.exit("could not parse seedcheck output")
tests, dw, do, _, rc, nviol, buckets = m.groups()
confirmed = tests == "tests-pass" and dw != "0" and do == "0"
if not confirmed:
    sys.exit(f"NOT CONFIRMED: {tests} demo(with)={dw} demo(without)={do}")
dst = os.path.join(V, "seeded", f"{pid}-{name}")
os.makedirs(dst, exist_ok=True)
for f in ("patch.diff", "demo.py", "notes.md"):
    if os.path.exists(os.path.join(src, f)):
        shutil.copy(os.path.join(src, f), os.path.join(dst, f))
notes = open(os.path.join(src, "notes.md")).read() if os.path.exists(os.path.join(src, "notes.md")) else ""
meta = {
    "property": pid,
    "origin": "independent sub-agent given only the property text and a scratch worktree",
    "needs_to_manifest": notes.strip()[:1500],
    "confirmed": {"repository_tests_with_patch": "71 passed", "demo_with_patch_exit": int(dw), "demo_without_patch_exit": int(do)},
    "ran": [f"git apply patch.diff in a scratch worktree of /repo HEAD; pytest -q; PYTHONPATH=<worktree> python demo.py; PYTHONPATH=/repo python demo.py",
            f"VF_REPO=<worktree> ./check {pid} quick"],
    "check_result": {"exit": int(rc), "violation_lines": int(nviol), "first_buckets": [b.strip() for b in buckets.split(";") if b.strip()][:2]},
    "caught_by_quick_check": int(rc) == 1,
}
json.dump(meta, open(os.path.join(dst, "meta.json"), "w"), indent=1)
print("kept", dst, "caught" if meta["caught_by_quick_check"] else "MISSED")
