#!/bin/bash
# Offline setup after a fresh restore: make sure hypothesis is importable by /venv and put atheris beside the checks.
cd "$(dirname "$0")" || exit 1
/venv/bin/python -c "import hypothesis" 2>/dev/null || /venv/bin/pip install -q --no-index --find-links /opt/veriftools/wheels hypothesis || exit 1
if [ ! -d .deps/atheris ]; then
  /venv/bin/pip install -q --no-index --find-links /opt/veriftools/wheels --target .deps atheris >/dev/null 2>&1 || echo "atheris not installable: fuzz tier of C16/C20 will be skipped (reported in evidence)"
fi
/venv/bin/python -c "import nmea2000, hypothesis; print('setup ok: hypothesis', hypothesis.__version__)"
